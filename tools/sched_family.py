"""Checks of the scheduler properties C01-C08, C14, C15, C17, C18, C20 (model: PfdlModel/Sched, Api)."""
import copy
import hashlib
import json
import multiprocessing as mp
import os
import random
import shutil
import signal
import subprocess
import tempfile
import time

import findings
import leanbuild
import net_tie
import progs
import schedcase as sc

HERE = os.path.dirname(os.path.abspath(__file__))
VERIF = os.path.abspath(os.path.join(HERE, ".."))

# ---------------------------------------------------------------------------------------------
# projections: what of a run is compared between implementation and model, per property


def inv0(ev):
    return ev[0] == "INV" and ev[2] == 0


def p_struct(calls, with_ret=True, with_var=True, with_params=False):
    """order of notifications (fn 0) and variable queries per call, with canonical ids"""
    out = []
    for c in calls:
        evs = []
        for e in c["out"]:
            if inv0(e):
                evs.append(["N", e[1], e[3], e[4], e[5], e[6]] + ([e[7]] if with_params else []))
            elif e[0] == "VAR" and with_var:
                evs.append(e)
            elif e[0] in ("FIRE", "RET", "RETFALSE") and with_ret:
                evs.append(e)
        out.append([c["op"]["op"], c["ret"], c["exc"], evs])
    return out


def proj_c01(calls):
    out = []
    for c in calls:
        ntf = sum(1 for e in c["out"] if inv0(e) and e[1] == "tf" and e[6] is None)
        out.append([c["op"]["op"], c["ret"], c["exc"], c["running"], len(c["awaited"]), c["start_awaited"], ntf])
    return out


def proj_net_c01(calls):
    """C01 at the net layer: the marking after every call, "exactly one token, in the final place" """
    return [a + [c.get("marking"), c.get("final_marking")] for a, c in zip(proj_c01(calls), calls)]


# properties whose net-level theorems speak about the generated net itself: the structure is part of the tie
NET_STRUCTURE_PROPS = ("C01",)


def proj_order(calls):
    return p_struct(calls)


def proj_decisions(calls):
    return p_struct(calls, with_ret=False)


def proj_c04(calls):
    """decisions in their context: the context is the task instance as announced, with the parameters it was given"""
    return p_struct(calls, with_ret=False, with_params=True)


def proj_c08(calls):
    return [[c["op"]["op"], c["ret"], c["exc"], c["running"], c["awaited"], c["start_awaited"],
             len([e for e in c["out"] if e[0] != "NET"])] for c in calls]


def proj_c15(calls):
    """started notifications with their parameters (what the EE does to a list it received shows in the finished
    notification of the same instance; the property does not speak about that)"""
    out = []
    for c in calls:
        evs = [["N", e[1], e[3], e[4], e[5], e[6], e[7]] for e in c["out"] if inv0(e) and e[1] in ("ts", "ss")]
        out.append([c["op"]["op"], c["ret"], c["exc"], evs])
    return out


def proj_c17(calls):
    out = []
    for c in calls:
        evs = []
        for e in c["out"]:
            if e[0] == "LOG":
                evs.append(e)
            elif inv0(e):
                evs.append(["N", e[1], e[3], e[5]])
        nets = sorted({e[1] for e in c["out"] if e[0] == "NET"})
        out.append([c["op"]["op"], c["ret"], c["exc"], evs, nets])
    return out


def proj_c20(calls):
    out = []
    for c in calls:
        evs = [e[:7] for e in c["out"] if e[0] == "INV"]
        out.append([c["op"]["op"], c["op"].get("kind"), c["op"].get("fn"), c["ret"], c["exc"], evs])
    return out


def proj_full(calls):
    out = []
    for c in calls:
        out.append([c["op"]["op"], c["ret"], c["exc"], c["running"], c["awaited"],
                    [e for e in c["out"] if e[0] != "NET"]])
    return out


# nontrivial: rule per property on the stats the monitors measured
PROPS = {
    "C01": dict(proj=proj_c01, gen={}, hist="some", ids="mostly_test",
                nontrivial=lambda st, case: st.get("finished") and st.get("services_started", 0) >= 2,
                rule="order ran to completion with >= 2 services"),
    "C02": dict(proj=proj_order, gen={}, hist="some", ids="mostly_test",
                nontrivial=lambda st, case: st.get("handovers", 0) >= 3,
                rule=">= 3 statement hand-overs (adjacent statements of a block both visible) checked"),
    "C03": dict(proj=proj_order, gen={"focus": ["par"]}, hist="some", ids="mostly_test",
                nontrivial=lambda st, case: st.get("par", 0) >= 1,
                rule=">= 1 Parallel block executed"),
    "C04": dict(proj=proj_c04, gen={"focus": ["cond"]}, hist="some", ids="mostly_test",
                nontrivial=lambda st, case: st.get("cond", 0) >= 1,
                rule=">= 1 Condition evaluated"),
    "C05": dict(proj=proj_decisions, gen={"focus": ["cloop", "wloop"], "ploop_lit_in_loop": True, "shadow_loopvars": True}, hist="some", ids="mostly_test",
                nontrivial=lambda st, case: st.get("cloop_iters", 0) + st.get("wloop_iters", 0) >= 1,
                rule=">= 1 loop iteration executed"),
    "C06": dict(proj=proj_order, gen={"focus": ["ploop"], "ploop_lit_in_loop": True}, hist="some", ids="mostly_test",
                nontrivial=lambda st, case: st.get("ploop", 0) >= 1,
                rule=">= 1 parallel loop executed"),
    "C07": dict(proj=proj_order, gen={}, hist="some", ids="mostly_test",
                nontrivial=lambda st, case: st.get("tasks_started", 0) >= 2 and st.get("services_started", 0) >= 2,
                rule=">= 2 task instances and >= 2 service instances"),
    "C08": dict(proj=proj_c08, gen={}, hist=True, ids="mostly_test",
                nontrivial=lambda st, case: st.get("junk_calls", 0) >= 1,
                rule=">= 1 junk / duplicate / repeated-start call in the history"),
    "C14": dict(proj=proj_full, gen={"focus": ["cloop", "call"]}, hist="some", ids="both",
                nontrivial=lambda st, case: st.get("tasks_started", 0) >= 2 and st.get("services_started", 0) >= 3,
                rule=">= 2 task and >= 3 service instances"),
    "C15": dict(proj=proj_c15, gen={"focus": ["cloop", "ploop", "call"]}, hist="some", ids="mostly_test", mutate="half",
                nontrivial=lambda st, case: st.get("params_delivered", 0) >= 2,
                rule=">= 2 notifications with non-empty parameter lists"),
    "C17": dict(proj=proj_c17, gen={}, hist=True, ids="mostly_test",
                nontrivial=lambda st, case: st.get("log_entries", 0) >= 4,
                rule=">= 4 log entries delivered to attached observers"),
    "C18": dict(proj=proj_full, gen={"focus": ["cloop", "call"]}, hist=False, variants=True,
                nontrivial=lambda st, case: st.get("variants", 0) >= 3,
                rule=">= 3 configuration variants compared"),
    "C20": dict(proj=proj_c20, gen={}, hist=True, ids="mostly_test",
                nontrivial=lambda st, case: st.get("notification_groups", 0) >= 4 and case.get("_multi_listener"),
                rule=">= 4 notifications with a registration history of more than the default listeners"),
}

# ---------------------------------------------------------------------------------------------
# workers

_SCRATCH = None


def _init_worker(base):
    global _SCRATCH
    d = tempfile.mkdtemp(prefix="w", dir=base)
    os.chdir(d)
    _SCRATCH = d
    import sys
    sys.setrecursionlimit(3000)  # nested evaluation: depth grows with the steps taken in one call (finding K9)
    signal.signal(signal.SIGINT, signal.SIG_IGN)


class CaseTimeout(BaseException):
    """raised by the harness's own alarm; not an Exception, so that no `except Exception` around a call into the
    implementation records it as something the implementation raised"""


def _alarm(signum, frame):
    raise CaseTimeout()


def job_run(case):
    """run one case on the implementation, canonicalise, monitor"""
    import monitors

    signal.signal(signal.SIGALRM, _alarm)
    signal.alarm(60)
    try:
        res, run = sc.run_impl(case)
        calls = sc.canon_impl_calls(res)
        viol, stats = ([], {})
        if res["valid"]:
            viol, stats = monitors.monitor_all(case, calls, case["answers"])
            stats["params_delivered"] = sum(1 for c in calls for e in c["out"] if e[0] == "INV" and e[2] == 0 and e[1] in ("ts", "ss") and e[7])
        net0 = net1 = None
        if res["valid"] and run is not None and case.get("ids", "test") == "test":
            # the implementation's net as a structure (creation order), for the net layer of the model
            net0 = run.net0
            try:
                net1 = run.net_structure()
            except Exception as ex:  # noqa: BLE001
                net1 = {"error": type(ex).__name__}
        signal.alarm(0)
        return {"case": case, "valid": res["valid"], "ctor_exc": res["ctor_exc"], "ctor_out": res["ctor_out"],
                "calls": calls, "viol": viol, "stats": stats, "net0": net0, "net1": net1}
    except CaseTimeout:
        return {"case": case, "valid": None, "timeout": True, "calls": [], "viol": [], "stats": {}}
    finally:
        signal.alarm(0)


def job_gen_run(args):
    seed, opts = args
    rng = random.Random(seed)
    hist = opts.get("hist", False)
    if hist == "some":
        # a third of the cases of every scheduling property run under a noisy API history (registrations in any
        # order and mid-run, repeated start(), junk and duplicate events): rejected calls must not matter
        hist = random.Random(seed ^ 0x5EED).random() < 0.33
    opts = dict(opts, hist=hist)
    case = sc.gen_case(rng, depth=opts.get("depth", 3), hist=opts.get("hist", False), max_ops=opts.get("max_ops", 40),
                       **opts.get("gen", {}))
    ids = opts.get("ids", "test")
    if ids == "both":
        ids = rng.choice(["test", "uuid"])
    elif ids == "mostly_test":
        # a quarter of the cases of every scheduling property run with UUIDs (the public default): identifiers are
        # compared up to renaming there
        ids = "uuid" if random.Random(seed ^ 0x1D5).random() < 0.25 else "test"
        if ids == "uuid" and progs.ploop_shapes(case["prog"]):
            # a literal parallel loop inside a loop (admitted for the loop-count properties) re-uses the instances of its
            # first visit: with UUIDs they keep their identifiers (finding K3b) - such programs run with test ids
            ids = "test"
    case["ids"] = ids
    mut = opts.get("mutate")
    case["mutate"] = (rng.random() < 0.5) if mut == "half" else bool(mut)
    if case["mutate"] and mut == "half" and rng.random() < 0.35:
        case["mutate"] = "late"  # the engine keeps the lists it was given and clears them when the next notification arrives
    case["gen_seed"] = seed
    if all(case["imm"]) and opts.get("depth", 3) > 2:
        # everything completes inside start(): keep the chain of nested evaluations short (finding K9)
        case2 = sc.gen_case(random.Random(seed + 1), depth=2, hist=opts.get("hist", False), max_ops=opts.get("max_ops", 40),
                            **opts.get("gen", {}))
        case2.update({"imm": case["imm"], "ids": case["ids"], "mutate": case["mutate"], "gen_seed": seed})
        case = case2
    if case["ids"] == "uuid" and opts.get("ids") == "mostly_test" and progs.ploop_shapes(case["prog"]):
        case["ids"] = "test"  # finding K3b, see above (the program may have been replaced)
    r = job_run(case)
    ops = case.get("ops", [])
    case["_multi_listener"] = any(o["op"] == "reg" and o["fn"] != 0 for o in ops)
    return r


def job_gen_run_any(args):
    """programs of ANY shape (parallel loops in every position, also the shapes of the known findings K1-K5), test
    ids, cross re-entrant completions for a quarter of them: run on the implementation and compared with the net
    layer of the model only - the monitors are not consulted (on these shapes the properties are known to fail)"""
    seed, opts = args
    rng = random.Random(seed ^ 0xA11)
    gen = dict(opts.get("gen", {}))
    focus = list(gen.get("focus") or [])
    gen["focus"] = focus + ["ploop"]
    gen["any_shape"] = True
    directed = ("cloop" in focus or "par" in focus) and rng.random() < 0.3
    if directed:
        # a loop around a Parallel block of called tasks with loops of their own, driven with completions reported from
        # inside service-finished notifications (below)
        gen["template"] = "loop_around_parallel"
    case = sc.gen_case(rng, depth=rng.choice([2, 3, 3]), hist=rng.random() < 0.25, max_ops=opts.get("max_ops", 40), **gen)
    case["ids"] = "test"
    case["mutate"] = False
    case["gen_seed"] = seed
    case["any_shape"] = True
    if rng.random() < 0.25 and not case.get("imm_other"):
        case["imm_other"] = [rng.random() < 0.5 for _ in range(rng.randint(1, 6))]
    if all(case["imm"]):
        case["imm"] = [True, False]
    if rng.random() < 0.15:
        case["start_by_event"] = True
    if rng.random() < (0.7 if directed else 0.2):
        # completions of other outstanding services reported from inside service-FINISHED notifications (finding K19)
        case["imm_sf"] = [rng.random() < 0.5 for _ in range(rng.randint(1, 5))]
    r = job_run(case)
    r["viol"] = []
    r["net_only"] = True
    return r


def job_all_orders(args):
    """small scope, exhaustively: ALL completion orders of one small program (depth-first over the choice among the
    outstanding services at every step, by re-execution), monitors on every run, model comparison on every run"""
    seed, prop, cap = args
    rng = random.Random(seed)
    cfg = PROPS[prop]
    gen = dict(cfg.get("gen", {}))
    prog = None
    for _ in range(30):
        cand = progs.gen_program(rng, depth=2, ntasks=2, **gen)
        nsvc = progs.count_kinds(cand).get("svc", 0)
        if 3 <= nsvc <= 7:
            prog = cand
            break
    if prog is None:
        return {"seed": seed, "runs": 0, "viol": [], "disagreements": []}
    text = progs.print_program(prog, indent=4)
    base = {"prog": prog, "text": text, "ids": "test", "draw": False, "as_file": False, "mutate": False, "imm": [False], "imm_other": None,
            "seed": rng.getrandbits(32), "hist": False, "max_ops": 30, "witness": False, "pick": "script", "gen_seed": seed}
    stack = [[]]
    runs = []
    while stack and len(runs) < cap:
        script = stack.pop()
        case = copy.deepcopy(base)
        case["script"] = script
        r = job_run(case)
        if not r.get("valid"):
            break
        br = r["case"].get("_branching", [])
        taken = script + [0] * (len(br) - len(script))
        for i in range(len(script), len(br)):
            for a in range(1, br[i]):
                stack.append(taken[:i] + [a])
        runs.append(r)
    viol = []
    for r in runs:
        for v in r["viol"]:
            if v["prop"] == prop:
                viol.append({"rule": v["rule"], "msg": v["msg"], "case": strip_case(r["case"])})
                break
        if viol:
            break
    disagreements = []
    if runs and os.path.exists(leanbuild.MODEL_EXE):
        try:
            resps = run_model([sc.model_request(r["case"]) for r in runs])
            for r, resp in zip(runs, resps):
                d = compare(r, resp, cfg["proj"])
                if d:
                    disagreements.append({"detail": d, "case": strip_case(r["case"])})
                    break
        except Exception as ex:  # noqa: BLE001
            disagreements.append({"detail": "model run failed: %s" % ex, "case": None})
    return {"seed": seed, "runs": len(runs), "complete": not stack, "viol": viol[:1], "disagreements": disagreements[:1],
            "services": progs.count_kinds(prog).get("svc", 0)}


def job_detach_in_update(args):
    """C17, directed: an observer detaches itself / an earlier / a later observer from inside update(): the detached one
    receives nothing further (not even the notification in delivery), every other attached observer still receives
    every notification (compared with a reference observer that is attached last and never touched)"""
    import impl

    seed, = args
    rng = random.Random(seed)
    signal.signal(signal.SIGALRM, _alarm)
    signal.alarm(60)
    try:
        prog = progs.gen_program(rng, depth=2, ploops=False)
        text = progs.print_program(prog, indent=4)
        answers = sc.Answers(random.Random(seed + 1))
        run = impl.Run(text, ids="test", answers=answers, imm=lambda k: k % 3 == 0)
        if run.s is None or not run.valid:
            return {"seed": seed, "skip": True}
        for k in ("ts", "ss", "sf", "tf"):
            run.register(k, 0)
        for o in (0, 1, 2, 3):
            run.attach(o)  # 3 = the reference observer
        who, target, at = rng.randrange(3), rng.randrange(3), rng.randint(1, 6)
        state = {"n": 0, "detached_at": None}
        seq = {o: [] for o in (0, 1, 2, 3)}
        problems = []

        def hook(obs, ntype, data):
            key = (str(ntype), data[0] if isinstance(data, tuple) else str(data))
            if state["detached_at"] is not None and obs.idx == target:
                problems.append("observer %d was detached (by observer %d, from inside update()) but received %r afterwards" % (target, who, key))
            seq[obs.idx].append(key)
            if obs.idx == who and state["detached_at"] is None:
                state["n"] += 1
                if state["n"] == at:
                    state["detached_at"] = len(seq[3]) + (1 if who == 3 else 0)
                    run.s.detach(run.observers[target])

        run.update_hook = hook
        c = run.start()
        n = 0
        while run.pending and n < 25 and not c.get("exc"):
            c = run.complete(rng.choice(run.pending))
            n += 1
        if c.get("exc") and c["exc"] != "RecursionError":
            problems.append("a call raised %s" % c["exc"])
        for o in (0, 1, 2):
            if o == target and state["detached_at"] is not None:
                continue
            if seq[o] != seq[3]:
                problems.append("observer %d (attached all the time) received %d notifications, the reference observer %d; first difference at %d"
                                % (o, len(seq[o]), len(seq[3]), next((i for i, (a, b) in enumerate(zip(seq[o], seq[3])) if a != b), min(len(seq[o]), len(seq[3])))))
        return {"seed": seed, "text": text, "problems": problems[:2], "plan": [who, target, at], "detached": state["detached_at"] is not None}
    except CaseTimeout:
        return {"seed": seed, "skip": True}
    finally:
        signal.alarm(0)


def job_register_in_callback(args):
    """C20, directed: a function is registered from inside running callbacks (lazily, by the listener that needs it), twice:
    the first registration is accepted, the repeat refused, and from then on the function receives every notification of
    its kind exactly once (whether it also receives the notification in delivery is left open)"""
    import impl

    seed, = args
    rng = random.Random(seed)
    signal.signal(signal.SIGALRM, _alarm)
    signal.alarm(60)
    try:
        prog = progs.gen_program(rng, depth=2, ploops=False)
        text = progs.print_program(prog, indent=4)
        answers = sc.Answers(random.Random(seed + 1))
        imm_mod = rng.choice([0, 2, 3])
        run = impl.Run(text, ids="test", answers=answers, imm=(lambda k: imm_mod and k % imm_mod == 0))
        if run.s is None or not run.valid:
            return {"seed": seed, "skip": True}
        for j in (0, 1):
            for k in ("ts", "ss", "sf", "tf"):
                run.register(k, j)
        who_kind, new_kind = rng.choice(["ts", "ss", "sf", "tf"]), rng.choice(["ts", "ss", "sf", "tf"])
        at = rng.randint(1, 4)
        second = rng.choice(["same_callback", "next_listener", "later_delivery"])
        before = rng.random() < 0.2  # already registered before start(): both registrations from inside are repeats
        reg = {"ts": run.s.register_callback_task_started, "tf": run.s.register_callback_task_finished,
               "ss": run.s.register_callback_service_started, "sf": run.s.register_callback_service_finished}[new_kind]
        state = {"n": 0, "rets": [], "first_done": False, "cur": None, "second_done": False}
        n0, late = {}, {}

        def late_fn(api):
            if state["first_done"] or before:
                late[api.uuid] = late.get(api.uuid, 0) + 1

        if before:
            state["rets"].append(("before start()", reg(late_fn)))
        orig = run.notified

        def notified(kind, j, api):
            orig(kind, j, api)
            if kind == new_kind and j == 0 and (state["first_done"] or before):
                n0[api.uuid] = n0.get(api.uuid, 0) + 1
            if kind != who_kind:
                return
            if j == 0 and not state["first_done"]:
                state["n"] += 1
                if state["n"] == at:
                    state["rets"].append(("first, from inside a %s callback" % who_kind, reg(late_fn)))
                    state["first_done"] = True
                    state["cur"] = api.uuid if who_kind == new_kind else None
                    state["delivery"] = (kind, api.uuid)
                    if second == "same_callback":
                        state["rets"].append(("repeat, from inside the same callback", reg(late_fn)))
                        state["second_done"] = True
            elif state["first_done"] and not state["second_done"]:
                if (second == "next_listener" and j == 1 and state.get("delivery") == (kind, api.uuid)) or \
                        (second == "later_delivery" and j == 0):
                    state["rets"].append(("repeat, from inside %s" % ("the next callback of the same delivery" if second == "next_listener" else "a callback of a later delivery"), reg(late_fn)))
                    state["second_done"] = True

        run.notified = notified
        c = run.start()
        n = 0
        while run.pending and n < 25 and not c.get("exc"):
            c = run.complete(rng.choice(run.pending))
            n += 1
        problems = []
        if c.get("exc") and c["exc"] != "RecursionError":
            problems.append("a call raised %s" % c["exc"])
        seen_true = False
        for what, ret in state["rets"]:
            if ret is not (not seen_true):
                problems.append("registration of one function for %s notifications (%s) reported %r, expected %r" % (new_kind, what, ret, not seen_true))
            seen_true = True
        for u in set(n0) | set(late):
            a, b = n0.get(u, 0), late.get(u, 0)
            if not (a == b or (u == state["cur"] and b == a + 1)):
                problems.append("the function registered from inside a callback was invoked %d times for %d %s notification(s) of %s" % (b, a, new_kind, u))
                break
        return {"seed": seed, "text": text, "problems": problems[:2], "plan": [who_kind, new_kind, at, second, before],
                "registered": state["first_done"], "later": sum(n0.values())}
    except CaseTimeout:
        return {"seed": seed, "skip": True}
    finally:
        signal.alarm(0)


def job_callable_kinds(args):
    """C20, directed: the kinds of callables an application registers - a plain function, a lambda, a bound method of an
    object the application keeps, a bound method of an object NOBODY else references (the application relies on the
    scheduler to keep its listeners), a functools.partial, an instance with __call__ - each registered once, some of them
    a second time (refused: reported False, no exception), then the order is run: every one of them is invoked exactly once
    per notification of its kind, in registration order"""
    import functools
    import gc
    import impl

    seed, = args
    rng = random.Random(seed)
    signal.signal(signal.SIGALRM, _alarm)
    signal.alarm(60)
    try:
        prog = progs.gen_program(rng, depth=2, ploops=False)
        text = progs.print_program(prog, indent=4)
        answers = sc.Answers(random.Random(seed + 1))
        run = impl.Run(text, ids="test", answers=answers)
        if run.s is None or not run.valid:
            return {"seed": seed, "skip": True}
        kind = rng.choice(["ts", "ss", "sf", "tf"])
        reg = {"ts": run.s.register_callback_task_started, "tf": run.s.register_callback_task_finished,
               "ss": run.s.register_callback_service_started, "sf": run.s.register_callback_service_finished}[kind]
        for k in ("ts", "ss", "sf", "tf"):
            run.register(k, 0)
        calls = []  # (label, uuid) in invocation order

        class Holder:
            def __init__(self, label):
                self.label = label

            def on_event(self, api):
                calls.append((self.label, api.uuid))

        class CallableObject:
            def __init__(self, label):
                self.label = label

            def __call__(self, api):
                calls.append((self.label, api.uuid))

        def plain(api):
            calls.append(("function", api.uuid))

        def for_partial(label, api):
            calls.append((label, api.uuid))

        kept = Holder("kept-method")

        def protocol(api):
            calls.append(("protocol", api.uuid))

        # one generic function registered for ALL four kinds (a protocol / logging function): accepted for each kind
        proto_rets = {}
        for k2, r2 in (("ts", run.s.register_callback_task_started), ("ss", run.s.register_callback_service_started),
                       ("sf", run.s.register_callback_service_finished), ("tf", run.s.register_callback_task_finished)):
            try:
                proto_rets[k2] = r2(protocol)
            except Exception as ex:  # noqa: BLE001
                proto_rets[k2] = "raised " + type(ex).__name__
        makers = {
            "function": lambda: plain,
            "lambda": (lambda f=(lambda api: calls.append(("lambda", api.uuid))): f),
            "kept-method": lambda: kept.on_event,
            "unreferenced-method": lambda: Holder("unreferenced-method").on_event,
            "partial": (lambda f=functools.partial(for_partial, "partial"): f),
            "callable-object": (lambda o=CallableObject("callable-object"): o),
        }
        labels = list(makers)
        rng.shuffle(labels)
        labels = labels[: rng.randint(3, 6)]
        problems = []
        order = []
        for lb in labels:
            try:
                r = reg(makers[lb]())
            except Exception as ex:  # noqa: BLE001
                problems.append("registering a %s raised %s" % (lb, type(ex).__name__))
                continue
            if r is not True:
                problems.append("the first registration of a %s reported %r" % (lb, r))
            order.append(lb)
            gc.collect()
            if lb != "unreferenced-method" and rng.random() < 0.6:
                # the same callable once more: refused
                try:
                    r2 = reg(makers[lb]())
                    if r2 is not False:
                        problems.append("the repeated registration of the same %s reported %r, expected False" % (lb, r2))
                except Exception as ex:  # noqa: BLE001
                    problems.append("the repeated registration of a %s raised %s instead of reporting False" % (lb, type(ex).__name__))
        gc.collect()
        c = run.start()
        n = 0
        while run.pending and n < 25 and not c.get("exc"):
            c = run.complete(rng.choice(run.pending))
            n += 1
            if n % 3 == 0:
                gc.collect()
        if c.get("exc") and c["exc"] != "RecursionError":
            problems.append("a call raised %s" % c["exc"])
        # the harness's own listener (fn 0) saw these notifications of the kind, in order
        seen = [e[5] for cc in run.calls for e in cc["out"] if e[0] == "INV" and e[1] == kind and e[2] == 0]
        all_seen = sum(1 for cc in run.calls for e in cc["out"] if e[0] == "INV" and e[2] == 0)
        bad_rets = {k2: r2 for k2, r2 in proto_rets.items() if r2 is not True}
        if bad_rets:
            problems.append("one function registered for all four kinds of notification: the registrations reported %r" % bad_rets)
        nproto = sum(1 for lb, _ in calls if lb == "protocol")
        if not problems and nproto != all_seen:
            problems.append("a function registered for all four kinds was invoked %d times for %d notifications" % (nproto, all_seen))
        calls[:] = [c for c in calls if c[0] != "protocol"]
        expected = [(lb, u) for u in seen for lb in order]
        if not problems and calls != expected:
            got = {}
            for lb, u in calls:
                got[lb] = got.get(lb, 0) + 1
            miss = [lb for lb in order if got.get(lb, 0) != len(seen)]
            if miss:
                problems.append("%d %s notifications: the registered %s was invoked %d times" % (len(seen), kind, miss[0], got.get(miss[0], 0)))
            else:
                problems.append("the callables registered for %s notifications were not invoked in registration order %r" % (kind, order))
        return {"seed": seed, "text": text, "problems": problems[:2], "plan": [kind, order], "notifications": len(seen)}
    except CaseTimeout:
        return {"seed": seed, "skip": True}
    finally:
        signal.alarm(0)


def job_observer_completion(args):
    """C08, directed: the execution engine learns about a started service from the LOG entry delivered to an attached
    observer and reports it finished from inside update(): the service has been announced, so the report is accepted
    exactly once (a repeat is refused), and the order runs to its end"""
    import re as _re

    import impl
    from pfdl_scheduler.scheduler import Event

    seed, = args
    rng = random.Random(seed)
    signal.signal(signal.SIGALRM, _alarm)
    signal.alarm(60)
    try:
        prog = progs.gen_program(rng, depth=2, ploops=False)
        text = progs.print_program(prog, indent=4)
        answers = sc.Answers(random.Random(seed + 1))
        run = impl.Run(text, ids=rng.choice(["test", "uuid"]), answers=answers)
        if run.s is None or not run.valid:
            return {"seed": seed, "skip": True}
        problems = []
        pat = _re.compile(r"^Service (\S+) with UUID '([^']*)' started\.$")
        state = {"n": 0}

        def hook(obs, ntype, data):
            if obs.idx != 0 or str(ntype).endswith("PETRI_NET") or not isinstance(data, tuple):
                return
            m = pat.match(data[0])
            if not m:
                return
            state["n"] += 1
            if state["n"] > 60:
                return  # endless loops: stop reporting, the run is cut
            uid = m.group(2)
            r1 = run.s.fire_event(Event("service_finished", {"service_uuid": uid}))
            if r1 is not True:
                problems.append("completion of service %s (%s) reported from inside the observer's update() for its 'started' log entry returned %r" % (m.group(1), uid, r1))
            elif rng.random() < 0.3:
                r2 = run.s.fire_event(Event("service_finished", {"service_uuid": uid}))
                if r2 is not False:
                    problems.append("the repeated completion of service %s returned %r" % (m.group(1), r2))

        run.update_hook = hook
        for k in ("ts", "ss", "sf", "tf"):
            run.register(k, 0)
        run.attach(0)
        c = run.start()
        if c.get("exc") and c["exc"] != "RecursionError":
            problems.append("start() raised %s" % c["exc"])
        elif not c.get("exc") and state["n"] <= 60:
            if c.get("running") or c.get("awaited"):
                problems.append("every service was reported finished when its start was logged, but the order did not finish: running=%r awaited=%r" % (c.get("running"), c.get("awaited")))
        return {"seed": seed, "text": text, "problems": problems, "services": state["n"]}
    except CaseTimeout:
        return {"seed": seed, "skip": True}
    finally:
        signal.alarm(0)


def job_raising_observer(args):
    """C08 / C14 / C05, directed: an observer (or the application's logging behind it) raises while a completion is being
    delivered.  The exception reaches the caller of fire_event(); the net has consumed the completion by then, so the
    same completion reported again is refused (False, no notification), it is not awaited any more, and a call that
    returns False has delivered nothing"""
    import re as _re

    import impl
    from pfdl_scheduler.scheduler import Event

    seed, = args
    rng = random.Random(seed)
    signal.signal(signal.SIGALRM, _alarm)
    signal.alarm(60)
    try:
        prog = progs.gen_program(rng, depth=2, ploops=False)
        text = progs.print_program(prog, indent=4)
        answers = sc.Answers(random.Random(seed + 1))
        run = impl.Run(text, ids=rng.choice(["test", "uuid"]), answers=answers)
        if run.s is None or not run.valid:
            return {"seed": seed, "skip": True}
        problems = []
        pat = _re.compile(r"^(Service|Task) (\S+) with UUID '([^']*)' (finished|started)\.$")
        target = rng.randint(1, 6)
        exc_type = rng.choice([KeyError, RuntimeError, ValueError])
        state = {"n": 0, "raised": 0, "armed": False}

        def hook(obs, ntype, data):
            if obs.idx != 0 or not state["armed"] or str(ntype).endswith("PETRI_NET") or not isinstance(data, tuple):
                return
            if not pat.match(data[0]):
                return
            state["n"] += 1
            if state["n"] == target and not state["raised"]:
                state["raised"] = 1
                raise exc_type("the observer failed")

        run.update_hook = hook
        for k in ("ts", "ss", "sf", "tf"):
            run.register(k, 0)
        run.attach(0)
        run.start()
        n = 0
        escaped = 0
        while run.pending and n < 30:
            n += 1
            k = run.pending[0] if rng.random() < 0.6 else rng.choice(run.pending)
            uid = run.announced[k]
            state["armed"] = True   # only completions are disturbed (start() has no event to repeat)
            was = state["raised"]
            c = run.complete(k)
            state["armed"] = False
            if c.get("ret") is False and [e for e in c.get("out", []) if e and e[0] in ("INV", "UPD")]:
                problems.append("the completion of %s returned False although %d notifications were delivered in that call (first %r)"
                                % (uid, len(c["out"]), c["out"][0]))
                break
            if state["raised"] and not was:
                if not c.get("exc"):
                    if c.get("ret") is not True:
                        problems.append("an observer raised %s while the completion of %s was delivered: fire_event() returned %r and raised nothing"
                                        % (exc_type.__name__, uid, c.get("ret")))
                        break
                else:
                    escaped += 1
                if k in run.pending:
                    run.pending.remove(k)
                if any(a[0] == "service_finished" and ('"service_uuid": "%s"' % uid) in a[1] for a in (c.get("awaited") or [])):
                    problems.append("after the interrupted delivery the completion of %s is awaited again" % uid)
                    break
                c2 = run._call({"op": "junk", "junk": "dup", "n": k}, lambda: run.s.fire_event(Event("service_finished", {"service_uuid": uid})))
                if c2.get("ret") is not False or [e for e in c2.get("out", []) if e and e[0] in ("INV", "UPD")]:
                    problems.append("the completion of %s, consumed by the net before the observer raised, was accepted a second time: returned %r, %d events"
                                    % (uid, c2.get("ret"), len(c2.get("out", []))))
                    break
        return {"seed": seed, "text": text, "problems": problems, "raised": state["raised"], "escaped": escaped}
    except CaseTimeout:
        return {"seed": seed, "skip": True}
    finally:
        signal.alarm(0)


def job_variants(case):
    """C18: the same explicit case under configuration variants; returns list of (name, canonical renamed trace)"""
    import impl  # noqa: F401

    signal.signal(signal.SIGALRM, _alarm)
    signal.alarm(120)
    out = []
    try:
        variants = [("base", {}), ("uuid", {"ids": "uuid", "reseed": True}), ("file", {"as_file": True}),
                    ("noobs", {"_strip_observers": True}), ("repeat", {}), ("others", {"_others": "uuid"}),
                    ("others_testids", {"_others": "test"})]
        if case.get("_draw"):
            variants.append(("draw", {"draw": True, "sched_uuid": "verifdraw"}))
        if case.get("_tabs"):
            # layout the language ignores: a tab after the blanks of the indentation of some lines.  Every variant (text,
            # file, ...) gets the same text; if the text does not run like the original one, the original is used
            rng = random.Random(case.get("seed", 0) ^ 0x7AB)
            lines = case["text"].split("\n")
            for i, l in enumerate(lines):
                ind = len(l) - len(l.lstrip(" "))
                if ind >= 4 and l.strip() and rng.random() < 0.4:
                    lines[i] = l[:ind] + "\t" + l[ind:]
            c3 = copy.deepcopy(case)
            c3["text"] = "\n".join(lines)
            res3, _ = sc.run_impl(copy.deepcopy(c3))
            res0, _ = sc.run_impl(copy.deepcopy(case))
            if res3.get("valid") and [c["exc"] for c in res3["calls"]] == [c["exc"] for c in res0["calls"]] and len(res3["calls"]) == len(res0["calls"]):
                case = c3
        if case.get("_tail_comment"):
            # a last line that is a comment naming a file (a generated program says where it came from)
            c3 = copy.deepcopy(case)
            c3["text"] = case["text"].rstrip("\n") + "\n# generated from templates/painting_line_2.pfdl" + ("\n" if case.get("seed", 0) % 2 else "")
            # no fall-back here: text and file of this very text must behave alike, whatever they do
            case = c3
        for name, delta in variants:
            c2 = copy.deepcopy(case)
            for k, v in delta.items():
                if not k.startswith("_"):
                    c2[k] = v
            if delta.get("_strip_observers"):
                c2["ops"] = [o for o in c2["ops"] if o["op"] not in ("attach", "detach")]
            if delta.get("_others"):
                calls = run_with_others(c2, delta["_others"])
            else:
                res, run = sc.run_impl(c2)
                calls = sc.canon_impl_calls(res)
            ren = sc.rename_ids(calls)
            tr = [[c["op"]["op"], c["ret"], c["exc"], c["running"], c["awaited"],
                   [e for e in c["out"] if e[0] in ("INV", "VAR", "FIRE", "RET", "RETFALSE")]] for c in ren
                  if c["op"]["op"] not in ("attach", "detach")]
            out.append((name, tr))
        signal.alarm(0)
        return {"case": case, "variants": out}
    except CaseTimeout:
        return {"case": case, "variants": out, "timeout": True}
    finally:
        signal.alarm(0)


def run_with_others(case, ids="uuid"):
    """drive the case while two other schedulers (same program, other schedule) are created and driven in between;
    completions addressed to the others are also sent to the scheduler under test and vice versa (must be rejected)"""
    import impl

    rng = random.Random(case.get("seed", 0) + 7)
    answers_list = case["answers"]
    counter = [0]

    def answers(name, ctx):
        k = counter[0]
        counter[0] += 1
        return answers_list[k] if k < len(answers_list) else case.get("terminator", sc.TERMINATOR)

    imm = case["imm"]
    imo = case.get("imm_other")
    main = impl.Run(case["text"], ids=ids, answers=answers, imm=lambda k: imm[k % len(imm)],
                    imm_other=(lambda k: imo[k % len(imo)]) if imo else None)
    oth_ans = sc.Answers(random.Random(5))
    others = [impl.Run(case["text"], ids=ids, answers=oth_ans, imm=lambda k: k % 3 == 0) for _ in range(2)]
    for o in others:
        for op in sc.DEFAULT_PRELUDE:
            sc.apply_op(o, op)
    cross_accepted = []
    small_text = "Task productionTask\n    OtherService\nEnd\n"
    for op in case["ops"]:
        if rng.random() < 0.25:
            # yet another order of the same process: a SMALL one (one service), created, started and finished in between
            tiny = impl.Run(small_text, ids=ids, answers=oth_ans)
            if tiny.s is not None and tiny.valid:
                for op2 in sc.DEFAULT_PRELUDE:
                    sc.apply_op(tiny, op2)
                tiny.start()
                if tiny.pending and rng.random() < 0.7:
                    tiny.complete(tiny.pending[0])
        # poke the others in between
        for o in others:
            r = rng.random()
            if r < 0.3 and not o.calls[-1]["op"].get("op") == "start" and not any(c["op"]["op"] == "start" for c in o.calls):
                o.start()
            elif r < 0.6 and o.pending:
                o.complete(rng.choice(o.pending))
            # an event addressed to the other scheduler sent to main, and vice versa (UUID mode only: sequential
            # test ids coincide between instances by construction)
            if ids != "uuid":
                continue
            if o.announced and rng.random() < 0.3:
                from pfdl_scheduler.scheduler import Event

                uid = rng.choice(o.announced)
                before = len(main.calls)
                ret = main.s.fire_event(Event("service_finished", {"service_uuid": uid}))
                if ret:
                    cross_accepted.append(uid)
            if main.announced and rng.random() < 0.3:
                from pfdl_scheduler.scheduler import Event

                uid = rng.choice(main.announced)
                if o.s.fire_event(Event("service_finished", {"service_uuid": uid})):
                    cross_accepted.append(uid)
        if op["op"] in ("finish", "junk") and "n" in op and op["n"] >= len(main.announced):
            rec = {"op": op, "out": [], "ret": None, "exc": "ReplayDiverged", "stdout": ""}
            rec.update(main.snapshot())
            main.calls.append(rec)
            break
        sc.apply_op(main, op)
    res = {"calls": main.calls}
    calls = sc.canon_impl_calls(res)
    if cross_accepted:
        calls.append({"op": {"op": "cross"}, "ret": "cross-accepted %r" % cross_accepted, "out": [], "running": None,
                      "awaited": [], "start_awaited": None, "other_awaited": 0, "exc": None})
    return calls


# ---------------------------------------------------------------------------------------------


def run_model(requests):
    """requests: list of dicts -> list of responses (dicts)"""
    if not requests:
        return []
    data = "\n".join(json.dumps(r) for r in requests) + "\n"
    p = subprocess.run([leanbuild.MODEL_EXE], input=data, capture_output=True, text=True, timeout=1200)
    lines = [l for l in p.stdout.split("\n") if l.strip()]
    if len(lines) != len(requests):
        raise RuntimeError("pfdl-model answered %d of %d requests: %s" % (len(lines), len(requests), p.stderr[:300]))
    return [json.loads(l) for l in lines]


def compare(r, resp, proj):
    """returns None if the projections agree, else a short description"""
    if "error" in resp:
        return "model error: " + resp["error"]
    ic = sc.rename_ids(r["calls"])
    mc = sc.rename_ids(sc.canon_model_calls(resp))
    if r["case"]["ids"] == "test":
        # in test-id mode the model predicts the identifiers themselves
        pi_raw, pm_raw = proj(r["calls"]), proj(sc.canon_model_calls(resp))
        if pi_raw != pm_raw:
            return first_diff(pi_raw, pm_raw)
    pi, pm = proj(ic), proj(mc)
    if pi != pm:
        return first_diff(pi, pm)
    return None


def first_diff(a, b):
    for i, (x, y) in enumerate(zip(a, b)):
        if x != y:
            if isinstance(x, list) and isinstance(y, list) and x and y and isinstance(x[-1], list) and isinstance(y[-1], list):
                for j, (u, v) in enumerate(zip(x[-1], y[-1])):
                    if u != v:
                        return "call %d, event %d: implementation %r / model %r" % (i, j, u, v)
                if len(x[-1]) != len(y[-1]):
                    return "call %d: implementation has %d events, model %d; head impl %r model %r" % (
                        i, len(x[-1]), len(y[-1]), x[:-1], y[:-1])
            return "call %d: implementation %r / model %r" % (i, str(x)[:300], str(y)[:300])
    return "number of calls: implementation %d / model %d" % (len(a), len(b))


def case_key(case):
    h = hashlib.sha256()
    h.update(case["text"].encode())
    h.update(json.dumps([case.get("ops"), case.get("imm"), case.get("ids"), case.get("mutate")], sort_keys=True).encode())
    return h.hexdigest()


def strip_case(case):
    c = {k: v for k, v in case.items() if not k.startswith("_")}
    return c


def shrink(pool, case, pred, budget=60):
    """greedy AST shrinking; pred(result of job_run) -> bool.  The history is regenerated adaptively from the
    same seed for every candidate program."""
    best = case
    n = 0
    improved = True
    while improved and n < budget:
        improved = False
        cands = []
        for p2 in progs.shrink_candidates(best["prog"]):
            c2 = {k: v for k, v in best.items() if k not in ("ops", "answers", "terminator", "text", "prog")}
            c2["prog"] = p2
            c2["text"] = progs.print_program(p2)
            cands.append(c2)
            if len(cands) >= 16:
                break
        if not cands:
            break
        results = pool.map(job_run, cands)
        n += len(cands)
        for r in results:
            if r.get("valid") and pred(r):
                best = r["case"]
                improved = True
                break
    return best


def run(ctx):
    prop, tier, seed = ctx["prop"], ctx["tier"], ctx["seed"]
    cfg = PROPS[prop]
    n_cases = int(os.environ.get("VERIF_CASES", "0")) or (320 if tier == "quick" else 4000)
    base = tempfile.mkdtemp(prefix="pfdl_verif_")
    t_start = time.time()
    res = {"violations": [], "known": [], "unexplained": [], "notes": [], "coverage": {}, "assumptions": []}
    try:
        pool = mp.Pool(min(16, os.cpu_count() or 4), initializer=_init_worker, initargs=(base,))
        try:
            _run(ctx, cfg, n_cases, pool, res)
        finally:
            pool.terminate()
            pool.join()
    finally:
        shutil.rmtree(base, ignore_errors=True)
    res["coverage"]["wall_s_family"] = round(time.time() - t_start, 1)
    return res


def _replay_obj(prop, r, v, extra=None):
    case = strip_case(r["case"])
    obj = {"property": prop, "family": "sched", "rule": v.get("rule"), "message": v.get("msg"), "case": case,
           "how": "./check %s quick --replay <this file> re-runs the explicit history on /repo and re-evaluates the monitor" % prop}
    if extra:
        obj.update(extra)
    return obj


def _run(ctx, cfg, n_cases, pool, res):
    prop, tier, seed = ctx["prop"], ctx["tier"], ctx["seed"]
    proj = cfg["proj"]
    # replay mode ---------------------------------------------------------------------------
    if ctx.get("replay"):
        with open(ctx["replay"]) as f:
            obj = json.load(f)
        case = obj["case"]
        r = pool.apply(job_run, (case,))
        vs = [v for v in r["viol"] if v["prop"] == prop]
        if obj.get("variants"):
            rv = pool.apply(job_variants, (case,))
            vs += variant_violations(prop, rv)
        for v in vs[:3]:
            res["violations"].append({"rule": v["rule"], "msg": v["msg"], "replay_obj": _replay_obj(prop, r, v)})
        if not vs and ctx["model_ok"] and r["valid"] and "ops" in case:
            resp = run_model([sc.model_request(case)])[0]
            d = compare(r, resp, proj)
            if d:
                res["notes"].append("replay: implementation and model still disagree: " + d)
                print("replay: no monitor violation; model/implementation disagreement:", d)
        res["coverage"] = {"evaluations": 1, "distinct_nontrivial": 0, "programs": 1, "samples": [case.get("text", "")[:400]]}
        return

    jobs = []
    opts = {"hist": cfg.get("hist", False), "gen": cfg.get("gen", {}), "ids": cfg.get("ids", "test"),
            "mutate": cfg.get("mutate"), "depth": 3 if tier == "quick" else 4, "max_ops": 40 if tier == "quick" else 60}
    for i in range(n_cases):
        o = dict(opts)
        if tier == "thorough" and i % 3 == 0:
            o["depth"] = 3
        jobs.append((seed * 1000003 + i, o))
    # corpus first -----------------------------------------------------------------------------
    corpus_dir = os.path.join(VERIF, "corpus", prop)
    corpus_cases = []
    if os.path.isdir(corpus_dir):
        for fn in sorted(os.listdir(corpus_dir)):
            if fn.endswith(".json"):
                with open(os.path.join(corpus_dir, fn)) as f:
                    corpus_cases.append(json.load(f)["case"])
    results = []
    if corpus_cases:
        results += pool.map(job_run, corpus_cases)
    # known findings stream ------------------------------------------------------------------
    for kf in findings.open_for(prop):
        try:
            obj = findings.load_replay(kf)
        except Exception as ex:  # noqa: BLE001
            res["notes"].append("finding %s: replay not loadable: %s" % (kf["id"], ex))
            continue
        if obj.get("family", "sched") != "sched":
            continue
        r = pool.apply(job_run, (obj["case"],))
        vs = [v for v in r["viol"] if v["prop"] == prop]
        if obj.get("variants"):
            vs += variant_violations(prop, pool.apply(job_variants, (obj["case"],)))
        if any(v["rule"] == kf["rule"] for v in vs):
            res["known"].append("id=%s %s" % (kf["id"], kf["text"]))
            other = [v for v in vs if v["rule"] not in obj.get("rules_allowed", [kf["rule"]])]
            for v in other[:1]:
                res["violations"].append({"rule": v["rule"], "msg": "finding %s now fails differently: %s" % (kf["id"], v["msg"]),
                                          "replay_obj": _replay_obj(prop, r, v)})
        elif vs:
            v = vs[0]
            res["violations"].append({"rule": v["rule"], "msg": "finding %s now fails differently: %s" % (kf["id"], v["msg"]),
                                      "replay_obj": _replay_obj(prop, r, v)})
        else:
            # the recorded history no longer shows the symptom: drive the finding's program with freshly generated
            # histories (the behaviour on this shape has changed) and report whatever the monitors find now
            found = None
            for j in range(6):
                c2 = {k: v for k, v in obj["case"].items() if k not in ("ops", "answers", "terminator")}
                c2 = copy.deepcopy(c2)
                c2["seed"] = j
                c2["pick"] = ["fifo", "lifo", "random"][j % 3]
                c2["imm"] = [[False], [False, True], [True]][j % 3] if j >= 3 else obj["case"]["imm"]
                r2 = pool.apply(job_run, (c2,))
                vs2 = [v for v in r2["viol"] if v["prop"] == prop]
                if vs2:
                    found = (r2, vs2[0])
                    break
            if found and found[1]["rule"] not in obj.get("rules_allowed", [kf["rule"]]):
                r2, v = found
                res["violations"].append({"rule": v["rule"], "msg": "the shape of finding %s now fails differently: %s" % (kf["id"], v["msg"]),
                                          "replay_obj": _replay_obj(prop, r2, v)})
            elif found:
                res["known"].append("id=%s %s" % (kf["id"], kf["text"]))
            else:
                res["notes"].append("finding %s no longer reproduces on this tree" % kf["id"])
    # main stream ------------------------------------------------------------------------------
    results += pool.map(job_gen_run, jobs, chunksize=4)
    deep = [r for r in results if r.get("valid") and any(c.get("exc") == "RecursionError" and len(c["out"]) > 150 for c in r["calls"])]
    results = [r for r in results if r not in deep]
    valid = [r for r in results if r.get("valid")]
    invalid = [r for r in results if r.get("valid") is False]
    timeouts = [r for r in results if r.get("timeout")]
    # model --------------------------------------------------------------------------------------
    disagreements = []
    net_disagreements = []
    net_cases = []
    model_errors = 0
    if ctx["model_ok"]:
        modelled = [r for r in valid if not r["case"].get("imm_other") and not r["case"].get("imm_sf")]
        resps = run_model([sc.model_request(r["case"]) for r in modelled])
        for r, resp in zip(modelled, resps):
            d = compare(r, resp, proj)
            r["model_stuck"] = any(c.get("stuck") == "outOfFuel" for c in resp.get("calls", []))
            if d and not r["model_stuck"]:
                disagreements.append((r, d))
        # the net layer of the model (generator.py / logic.py / the net callbacks as the code does them): also the
        # cases with cross re-entrant completions, which the structural model does not cover
        any_results = pool.map(job_gen_run_any, [(seed * 1000003 + i, opts) for i in range(max(20, n_cases // 4))], chunksize=2)
        any_valid = [r for r in any_results if r.get("valid") and not any(c.get("exc") == "RecursionError" for c in r["calls"])]
        net_cases = [r for r in valid if net_tie.applicable(r["case"])] + [r for r in any_valid if net_tie.applicable(r["case"])]
        nresps = run_model([net_tie.net_request(r["case"]) for r in net_cases])
        for r, resp in zip(net_cases, nresps):
            r["net_stuck"] = any(c.get("stuck") == "outOfFuel" for c in resp.get("calls", []))
            # the place-invariant certificate of the net as generated (hypothesis of Net.C01.final_place_exclusive_partial):
            # None = the net has a parallel loop (rebuilt at run time, no certificate), else decided by certCheck
            r["cert0"] = resp.get("cert0")
            if prop == "C01" and resp.get("cert0") is False:
                net_disagreements.append((r, "net layer: the place-invariant certificate (Net.certCheck) fails for the generated net: "
                                             "the hypothesis of Net.C01.final_place_exclusive_partial does not hold for this program"))
            d = net_tie.compare_calls(r["calls"], r.get("net0") if prop in NET_STRUCTURE_PROPS else None,
                                      r.get("net1") if prop in NET_STRUCTURE_PROPS else None, resp,
                                      proj=(proj_net_c01 if prop == "C01" else proj))
            if d and not r["net_stuck"]:
                net_disagreements.append((r, "net layer: " + d))
    else:
        res["unexplained"].append({"what": "the Lean model does not build: " + "; ".join(ctx["build"].get("build_errors", [])[:3])})
    # violations found by the monitors -------------------------------------------------------------
    seen_rules = set()
    hist = {}
    for r in valid:
        for v in r["viol"]:
            if v["prop"] != prop:
                continue
            hist[v["rule"]] = hist.get(v["rule"], 0) + 1
    for r in valid:
        for v in r["viol"]:
            if v["prop"] != prop or v["rule"] in seen_rules:
                continue
            seen_rules.add(v["rule"])
            rule = v["rule"]
            small = shrink(pool, r["case"], lambda rr, rule=rule: any(x["prop"] == prop and x["rule"] == rule for x in rr["viol"]),
                           budget=48 if tier == "quick" else 160)
            rs = pool.apply(job_run, (small,))
            vv = [x for x in rs["viol"] if x["prop"] == prop and x["rule"] == rule]
            if vv:
                res["violations"].append({"rule": rule, "msg": vv[0]["msg"], "replay_obj": _replay_obj(prop, rs, vv[0], {"occurrences": hist.get(rule)})})
            else:
                res["violations"].append({"rule": rule, "msg": v["msg"], "replay_obj": _replay_obj(prop, r, v, {"occurrences": hist.get(rule)})})
    # invalid programs of the valid family: the validator wrongly rejects (C11's business) - for scheduling
    # properties they are simply not schedulable; count them.  An EXCEPTION out of the constructor is no rejection:
    # the generated program (which contains the constructs of this property) cannot be scheduled at all
    crashed = [r for r in results if r.get("ctor_exc")]
    if crashed and "construction_raises" not in seen_rules:
        seen_rules.add("construction_raises")
        r0 = min(crashed, key=lambda r: len(r["case"].get("text", "")))
        msg = "Scheduler(...) raised %s for a generated well-formed program (%d of %d programs): %s" % (
            r0["ctor_exc"], len(crashed), len(results), (r0.get("ctor_out") or "")[:160])
        res["violations"].append({"rule": "construction_raises", "msg": msg,
                                  "replay_obj": {"property": prop, "family": "sched", "rule": "construction_raises", "message": msg,
                                                 "text": r0["case"].get("text", ""), "case": {k: v for k, v in r0["case"].items() if k != "prog"},
                                                 "how": "construct pfdl_scheduler.scheduler.Scheduler(text)"}})
    # crashes -----------------------------------------------------------------------------------
    # variants (C18) -------------------------------------------------------------------------------
    nvar = 0
    if cfg.get("variants"):
        sub = valid[: (48 if tier == "quick" else 600)]
        ndraw = 0
        import re as _re
        cond_cmp = _re.compile(r"Condition\n\s+[^\n]*[<>]")
        ncmp = 0
        for i, r in enumerate(sub):
            # drawing: first the small runs whose program has a Condition with an ordering comparison (the text of the
            # expression becomes a label of the drawing), then any small runs
            small = sum(len(c["out"]) for c in r["calls"]) < 50
            r["case"]["_draw"] = bool(small and cond_cmp.search(r["case"]["text"]) and ncmp < (4 if tier == "quick" else 40))
            ncmp += int(r["case"]["_draw"])
            r["case"]["_tabs"] = (i % 3 == 1)
            r["case"]["_tail_comment"] = (i % 3 == 2)
        for i, r in enumerate(sub):
            small = sum(len(c["out"]) for c in r["calls"]) < 50
            if not r["case"]["_draw"]:
                r["case"]["_draw"] = small and ndraw < (3 if tier == "quick" else 30)
                ndraw += int(r["case"]["_draw"])
        vres = pool.map(job_variants, [r["case"] for r in sub], chunksize=2)
        for r, rv in zip(sub, vres):
            r["stats"]["variants"] = len(rv.get("variants", []))
            nvar += len(rv.get("variants", []))
            vs = variant_violations(prop, rv)
            for v in vs[:1]:
                if v["rule"] not in seen_rules:
                    seen_rules.add(v["rule"])
                    res["violations"].append({"rule": v["rule"], "msg": v["msg"], "replay_obj": _replay_obj(prop, r, v, {"variants": True})})
    # small scope, all completion orders ---------------------------------------------------------------
    ao = pool.map(job_all_orders, [(seed * 1000003 + i, prop, 60 if tier == "quick" else 400) for i in range(12 if tier == "quick" else 160)], chunksize=1)
    ao_runs = sum(a["runs"] for a in ao)
    ao_complete = sum(1 for a in ao if a.get("complete") and a["runs"])
    for a in ao:
        for v in a["viol"]:
            if v["rule"] not in seen_rules:
                seen_rules.add(v["rule"])
                res["violations"].append({"rule": v["rule"], "msg": v["msg"] + "  (found by the enumeration of all completion orders)",
                                          "replay_obj": {"property": prop, "family": "sched", "rule": v["rule"], "message": v["msg"], "case": v["case"],
                                                         "how": "./check %s quick --replay <this file>" % prop}})
        for d in a["disagreements"]:
            if d["case"]:
                disagreements.append(({"case": d["case"], "valid": True}, d["detail"]))
    res["notes"].append("all completion orders: %d programs (%d enumerated completely), %d runs" % (len([a for a in ao if a["runs"]]), ao_complete, ao_runs))
    # C17: detach from inside update() ---------------------------------------------------------------------
    if prop == "C17":
        ndet = 0
        for r in pool.map(job_detach_in_update, [(seed * 11 + i,) for i in range(60 if tier == "quick" else 600)], chunksize=2):
            if r.get("skip"):
                continue
            ndet += int(bool(r.get("detached")))
            if r["problems"] and "detach_in_update" not in seen_rules:
                seen_rules.add("detach_in_update")
                res["violations"].append({"rule": "detach_in_update", "msg": r["problems"][0] + " (observer %d detaches observer %d at its update no. %d)" % tuple(r["plan"]),
                                          "replay_obj": {"property": prop, "family": "sched", "rule": "detach_in_update", "message": r["problems"][0],
                                                         "text": r["text"], "job_seed": r["seed"], "plan": r["plan"],
                                                         "how": "re-run: tools/sched_family.job_detach_in_update((job_seed,))"}})
        res["notes"].append("detach from inside observer.update(): %d runs in which the detach happened" % ndet)
    # C20: registration from inside running callbacks ----------------------------------------------------
    if prop == "C20":
        nreg = nlater = 0
        for r in pool.map(job_register_in_callback, [(seed * 13 + i,) for i in range(80 if tier == "quick" else 800)], chunksize=2):
            if r.get("skip"):
                continue
            nreg += int(bool(r.get("registered")))
            nlater += r.get("later", 0)
            if r["problems"] and "register_in_callback" not in seen_rules:
                seen_rules.add("register_in_callback")
                res["violations"].append({"rule": "register_in_callback", "msg": r["problems"][0] + " (plan %r)" % (r["plan"],),
                                          "replay_obj": {"property": prop, "family": "sched", "rule": "register_in_callback", "message": r["problems"][0],
                                                         "text": r["text"], "job_seed": r["seed"], "plan": r["plan"],
                                                         "how": "re-run: tools/sched_family.job_register_in_callback((job_seed,))"}})
        res["notes"].append("registration from inside callbacks: %d runs in which it happened, %d later notifications checked" % (nreg, nlater))
        nck = nnot = 0
        for r in pool.map(job_callable_kinds, [(seed * 17 + i,) for i in range(60 if tier == "quick" else 600)], chunksize=2):
            if r.get("skip"):
                continue
            nck += 1
            nnot += r.get("notifications", 0)
            if r["problems"] and "callable_kinds" not in seen_rules:
                seen_rules.add("callable_kinds")
                res["violations"].append({"rule": "callable_kinds", "msg": r["problems"][0] + " (plan %r)" % (r["plan"],),
                                          "replay_obj": {"property": prop, "family": "sched", "rule": "callable_kinds", "message": r["problems"][0],
                                                         "text": r["text"], "job_seed": r["seed"], "plan": r["plan"],
                                                         "how": "re-run: tools/sched_family.job_callable_kinds((job_seed,))"}})
        res["notes"].append("kinds of callables (function, lambda, kept / unreferenced bound method, partial, callable object): %d runs, %d notifications" % (nck, nnot))
    # C08: completion reported from inside an observer's update() ---------------------------------------
    if prop in ("C08", "C01", "C02", "C03", "C05"):
        nobs = 0
        for r in pool.map(job_observer_completion, [(seed * 7 + i,) for i in range(60 if tier == "quick" else 600)], chunksize=2):
            if r.get("skip"):
                continue
            nobs += 1
            if r["problems"] and "observer_completion" not in seen_rules:
                seen_rules.add("observer_completion")
                res["violations"].append({"rule": "observer_completion", "msg": r["problems"][0],
                                          "replay_obj": {"property": prop, "family": "sched", "rule": "observer_completion", "message": r["problems"][0],
                                                         "text": r["text"], "job_seed": r["seed"],
                                                         "how": "re-run: tools/sched_family.job_observer_completion((job_seed,))"}})
        res["notes"].append("completions from inside observer.update(): %d runs" % nobs)
    # an observer raises while a completion is delivered ----------------------------------------------
    if prop in ("C08", "C14", "C05"):
        nro = nraised = 0
        for r in pool.map(job_raising_observer, [(seed * 11 + i,) for i in range(60 if tier == "quick" else 600)], chunksize=2):
            if r.get("skip"):
                continue
            nro += 1
            nraised += r.get("raised", 0)
            if r["problems"] and "raising_observer" not in seen_rules:
                seen_rules.add("raising_observer")
                res["violations"].append({"rule": "raising_observer", "msg": r["problems"][0],
                                          "replay_obj": {"property": prop, "family": "sched", "rule": "raising_observer", "message": r["problems"][0],
                                                         "text": r["text"], "job_seed": r["seed"],
                                                         "how": "re-run: tools/sched_family.job_raising_observer((job_seed,))"}})
        res["notes"].append("an observer raises during the delivery of a completion: %d runs, %d exceptions raised" % (nro, nraised))
    # C08: the run without the rejected calls must be the same run -----------------------------------
    if prop == "C08":
        def redundant(r):
            """indices of the calls that must not matter: rejected junk / duplicate events, every start() after the first"""
            out = set()
            started = False
            for i, c in enumerate(r["calls"]):
                if c["op"]["op"] == "junk" and c["ret"] is False:
                    out.add(i)
                elif c["op"]["op"] == "start":
                    if started:
                        out.add(i)
                    started = True
            return out

        sub = [r for r in valid if redundant(r)][: (120 if tier == "quick" else 1200)]
        stripped = []
        for r in sub:
            c2 = copy.deepcopy(strip_case(r["case"]))
            rejected = redundant(r)
            r["_redundant"] = rejected
            c2["ops"] = [o for i, o in enumerate(r["case"]["ops"][: len(r["calls"])]) if i not in rejected]
            stripped.append(c2)
        sres = pool.map(job_run, stripped, chunksize=2)
        for r, r2 in zip(sub, sres):
            a = [c for i, c in enumerate(sc.rename_ids(r["calls"])) if i not in r["_redundant"]]
            b = sc.rename_ids(r2["calls"])
            pa, pb = proj_full(a), proj_full(b)
            if pa != pb and "as_if_never_sent" not in seen_rules:
                seen_rules.add("as_if_never_sent")
                v = {"prop": "C08", "rule": "as_if_never_sent", "msg": "the run with the rejected calls removed differs: " + first_diff(pa, pb)}
                res["violations"].append({"rule": v["rule"], "msg": v["msg"], "replay_obj": _replay_obj(prop, r, v)})
    # disagreements: search for a failing input around them -----------------------------------------
    net_only = bool(net_disagreements) and not disagreements
    disagreements = disagreements + net_disagreements
    if disagreements and not res["violations"]:
        found = False
        # intensified search: re-run the disagreeing programs with other schedules / both id modes / hostile EE
        extra = []
        for r, d in disagreements[:8]:
            if r.get("net_only"):
                continue  # a program of a known-finding shape: the monitors are not consulted on it
            for j in range(12 if tier == "quick" else 40):
                c2 = {k: v for k, v in r["case"].items() if k not in ("ops", "answers", "terminator")}
                c2 = copy.deepcopy(c2)
                c2["seed"] = (r["case"].get("seed", 0) * 31 + j + 1) % (2 ** 32)
                c2["pick"] = ["fifo", "lifo", "random"][j % 3]
                c2["imm"] = [[False], [True], [True, False], [False, True, True]][j % 4]
                c2["ids"] = "uuid" if j % 5 == 4 else r["case"]["ids"]
                c2["hist"] = r["case"].get("hist") or (j % 2 == 1 and cfg.get("hist", False))
                extra.append(c2)
        for r2 in pool.map(job_run, extra, chunksize=2):
            vs = [v for v in r2["viol"] if v["prop"] == prop]
            if vs and r2.get("valid"):
                v = vs[0]
                res["violations"].append({"rule": v["rule"], "msg": v["msg"], "replay_obj": _replay_obj(prop, r2, v, {"found_by": "search after model/implementation disagreement"})})
                found = True
                break
        if not found:
            r, d = disagreements[0]
            if net_only:
                small = shrink(pool, r["case"], lambda rr: bool(rr.get("valid")) and net_disagree_pred(rr, prop, proj), budget=32)
            else:
                small = shrink(pool, r["case"], lambda rr: bool(rr.get("valid")) and disagree_pred(rr, proj), budget=32)
            res["unexplained"].append({"what": "correspondence broken for the %s projection on %d of %d cases: %s" % (prop, len(disagreements), len(valid), d),
                                       "case": strip_case(small), "detail": d})
    # coverage -------------------------------------------------------------------------------------
    keys = set()
    nontrivial = set()
    kinds_hist = {}
    depth_hist = {}
    sched_hist = {}
    for r in valid:
        k = case_key(r["case"])
        keys.add(k)
        try:
            if cfg["nontrivial"](r["stats"], r["case"]):
                nontrivial.add(k)
        except Exception:  # noqa: BLE001
            pass
        for kk, n in progs.count_kinds(r["case"]["prog"]).items():
            kinds_hist[kk] = kinds_hist.get(kk, 0) + n
        d = max(progs.max_depth(t["body"]) for t in r["case"]["prog"]["tasks"])
        depth_hist[d] = depth_hist.get(d, 0) + 1
        immk = "none" if not any(r["case"]["imm"]) else "all" if all(r["case"]["imm"]) else "mixed"
        sk = "%s/%s/%s" % (r["case"].get("pick"), immk, r["case"]["ids"])
        sched_hist[sk] = sched_hist.get(sk, 0) + 1
    agg = {}
    for r in valid:
        for kk, n in r["stats"].items():
            if isinstance(n, bool):
                agg[kk] = agg.get(kk, 0) + int(n)
            elif isinstance(n, int):
                agg[kk] = agg.get(kk, 0) + n
            elif isinstance(n, dict):
                a = agg.setdefault(kk, {})
                for k2, n2 in n.items():
                    a[str(k2)] = a.get(str(k2), 0) + n2
    sample = valid[0]["case"] if valid else None
    res["coverage"] = {
        "programs": len({r["case"]["text"] for r in valid}),
        "evaluations": len(results),
        "distinct_nontrivial": len(nontrivial),
        "rule": "cases = random valid program (typed generator, all 7 statement kinds, outside the known-finding shapes) x scripted EE (values per query, completion order %s, immediate completions none/all/mixed)%s; distinct by hash of (text, ops, imm, ids); non-trivial: %s"
                % ("fifo/lifo/random", " x API history (junk events, repeated start, registration/attach history)" if cfg.get("hist") else "", cfg["rule"]),
        "traces_validated_against_impl": len([r for r in valid if not r["case"].get("imm_other")]) if ctx["model_ok"] else 0,
        "monitor_only_cross_reentrant_cases": len([r for r in valid if r["case"].get("imm_other") and not net_tie.applicable(r["case"])]),
        "net_layer_cases": len(net_cases),
        "net_layer_certificate": {"certified": len([r for r in net_cases if r.get("cert0") is True]),
                                  "no_certificate_parallel_loop": len([r for r in net_cases if r.get("cert0") is None]),
                                  "certificate_fails": len([r for r in net_cases if r.get("cert0") is False])},
        "net_layer_any_shape_cases": len([r for r in net_cases if r.get("net_only")]),
        "net_layer_any_shape_shapes": _shape_hist([r for r in net_cases if r.get("net_only")]),
        "net_layer_cross_reentrant_cases": len([r for r in net_cases if r["case"].get("imm_other")]),
        "net_layer_transitions_max": max([len((r.get("net1") or {}).get("trans", [])) for r in net_cases] or [0]),
        "disagreements_checked": len(disagreements),
        "model_out_of_fuel": sum(1 for r in valid if r.get("model_stuck")),
        "invalid_programs": len(invalid),
        "timeouts": len(timeouts),
        "excluded_deep_recursion_K9": len(deep),
        "calls_with_exception": sum(1 for r in valid for c in r["calls"] if c.get("exc")),
        "statement_kinds": kinds_hist,
        "nesting_depths": depth_hist,
        "schedule_kinds": sched_hist,
        "monitor_stats": agg,
        "corpus_cases": len(corpus_cases),
        "known_findings_reproduced": len(res["known"]),
        "variants_compared": nvar,
        "samples": [{"text": sample["text"], "imm": sample["imm"], "ops": sample["ops"][:12]}] if sample else [],
    }
    if invalid:
        res["notes"].append("%d generated programs were rejected by the validator (first: %s)" % (len(invalid), invalid[0].get("ctor_out", "")[:200]))
    if timeouts:
        res["notes"].append("%d cases timed out" % len(timeouts))


def _shape_hist(rs):
    h = {}
    for r in rs:
        for x in progs.ploop_shapes(r["case"]["prog"]):
            h[x] = h.get(x, 0) + 1
    return h


def net_disagree_pred(rr, prop, proj):
    if not net_tie.applicable(rr["case"]):
        return False
    try:
        resp = run_model([net_tie.net_request(rr["case"])])[0]
    except Exception:  # noqa: BLE001
        return False
    st = prop in NET_STRUCTURE_PROPS
    return net_tie.compare_calls(rr["calls"], rr.get("net0") if st else None, rr.get("net1") if st else None, resp,
                                 proj=(proj_net_c01 if prop == "C01" else proj)) is not None


def disagree_pred(rr, proj):
    try:
        resp = run_model([sc.model_request(rr["case"])])[0]
    except Exception:  # noqa: BLE001
        return False
    return compare(rr, resp, proj) is not None


def variant_violations(prop, rv):
    out = []
    vs = rv.get("variants", [])
    if not vs:
        return out
    base = vs[0][1]
    for name, tr in vs[1:]:
        if name == "noobs":
            # without observers: the same trace (attach/detach calls are removed on both sides)
            pass
        if tr != base:
            out.append({"prop": "C18", "rule": "variant_" + name,
                        "msg": "configuration variant %r changes the notification sequence: %s" % (name, first_diff(base, tr))})
    return [v for v in out if v["prop"] == prop]
