"""./check <property> <quick|thorough> [--replay file]

Decides one property: (1) regenerate tables from /repo, lake build, axiom audit of the property's
theorems; (2) correspondence: implementation vs. compiled Lean model on generated cases (property
specific projection), monitors on every implementation trace; (3) on any break: search for a failing
input, shrink, write a replay, print the VIOLATION line.  Exit 0 / 1 (violation) / 2 (infrastructure)."""
import json
import os
import sys
import time
import traceback

HERE = os.path.dirname(os.path.abspath(__file__))
VERIF = os.path.abspath(os.path.join(HERE, ".."))
sys.path.insert(0, HERE)
os.environ.setdefault("PYTHONDONTWRITEBYTECODE", "1")

import leanbuild  # noqa: E402
import findings  # noqa: E402

TRUSTED_BASE = [
    "Lean 4.33.0 kernel; axioms of every listed theorem audited each run with #print axioms: subset of {propext, Classical.choice, Quot.sound}; no native_decide/bv_decide/sorry/own axioms (grep each run)",
    "the Lean compiler for the executable model `pfdl-model` used in the correspondence",
    "tools/extract.py (ast pattern matching) for the regenerated tables in PfdlModel/Generated.lean",
    "the correspondence harness (generators, scripted execution engine, canonicalisation, projections): the hand-written model agrees with the code only on the generated cases",
    "modelled, not verified: SNAKES/ANTLR/Graphviz, Python semantics (dict order, deepcopy, list.remove by ==), floats (model computes in Rat; generated values are dyadic), uuid4 as a fresh source, recursion limit, threads, file system",
]


SCHED_PROPS = {"C01", "C02", "C03", "C04", "C05", "C06", "C07", "C08", "C14", "C15", "C17", "C18", "C20"}
VALID_PROPS = {"C09", "C10", "C11", "C16", "C19"}
TEXT_PROPS = {"C12", "C13"}


def family_of(prop):
    if prop in SCHED_PROPS:
        import sched_family

        return sched_family
    if prop in VALID_PROPS:
        import valid_family

        return valid_family
    if prop in TEXT_PROPS:
        import text_family

        return text_family
    return None


def write_evidence(prop, ev):
    os.makedirs(os.path.join(VERIF, "evidence"), exist_ok=True)
    path = os.path.join(VERIF, "evidence", prop + ".json")
    with open(path, "w") as f:
        json.dump(ev, f, indent=1, sort_keys=True, default=str)


def write_replay(prop, name, obj):
    d = os.path.join(VERIF, "replays")
    os.makedirs(d, exist_ok=True)
    path = os.path.join(d, "%s_%s.json" % (prop, name))
    with open(path, "w") as f:
        json.dump(obj, f, indent=1, default=str)
    return os.path.relpath(path, VERIF)


def main(argv):
    if len(argv) < 3:
        print(__doc__)
        return 2
    prop, tier = argv[1], argv[2]
    replay = None
    if "--replay" in argv:
        replay = argv[argv.index("--replay") + 1]
    seed = int(os.environ.get("VERIF_SEED", "20260926"))
    t0 = time.time()
    fam = family_of(prop)
    if fam is None:
        print("unknown property", prop)
        return 2
    try:
        build = leanbuild.ensure_built(thorough=(tier == "thorough"))
    except Exception as ex:  # noqa: BLE001
        print("infrastructure failure in build:", ex)
        traceback.print_exc()
        return 2
    n_obl, n_dis, proof_problems = leanbuild.obligations_for(prop, build)
    ctx = {"prop": prop, "tier": tier, "seed": seed, "build": build, "proof_problems": proof_problems,
           "model_ok": bool(build.get("model_ok")), "replay": replay, "t0": t0}
    try:
        res = fam.run(ctx)
    except Exception as ex:  # noqa: BLE001
        print("infrastructure failure:", ex)
        traceback.print_exc()
        return 2
    # res: dict(violations=[{rule,msg,replay_obj}], known=[...], disagreements=[...], coverage={...}, notes=[...])
    lines = []
    exit_code = 0
    nviol = 0
    for kf in res.get("known", []):
        lines.append("KNOWN-FINDING: property=%s %s" % (prop, kf))
    for i, v in enumerate(res.get("violations", [])[:5]):
        path = write_replay(prop, "%s_%d" % (v.get("rule", "violation"), i), v["replay_obj"])
        lines.append("VIOLATION property=%s replay=%s" % (prop, path))
        lines.append("  " + v.get("msg", "")[:400])
        nviol += 1
        exit_code = 1
    if nviol == 0 and not replay:
        broken = list(proof_problems)
        for d in res.get("unexplained", []):
            broken.append(d["what"])
        if broken:
            obj = {"property": prop, "no_failing_input_found": True, "broken": broken,
                   "smallest_disagreeing_case": (res.get("unexplained") or [{}])[0].get("case"),
                   "detail": (res.get("unexplained") or [{}])[0].get("detail"),
                   "note": "a proof obligation or the model/implementation correspondence no longer checks; the search for a concrete failing input on the implementation found none"}
            path = write_replay(prop, "unchecked", obj)
            lines.append("VIOLATION property=%s replay=%s no-failing-input-found" % (prop, path))
            for b in broken[:3]:
                lines.append("  " + b[:300])
            nviol += 1
            exit_code = 1
    cov = dict(res.get("coverage", {}))
    cov.update({
        "obligations": n_obl,
        "discharged": n_dis,
        "checker_cmd": "python3 tools/extract.py && (cd lean && lake build && lake env lean Audit.lean)" + (" && lake env leanchecker <modules>" if tier == "thorough" else ""),
        "trusted_base": TRUSTED_BASE,
        "theorems": {n: build.get("theorems", {}).get(n) for n in __import__("obligations").PROP_THEOREMS.get(prop, [])},
        "proof_problems": proof_problems,
        "generated_tables_changed": build.get("generated_changed"),
        "leanchecker": {"rc": build.get("leanchecker_rc"), "seconds": build.get("leanchecker_s")} if tier == "thorough" else None,
    })
    ev = {"property_id": prop, "tier": tier, "seed": seed, "level": "proof", "coverage": cov,
          "assumptions": res.get("assumptions", []), "wall_s": round(time.time() - t0, 1), "violations": nviol,
          "notes": res.get("notes", [])}
    if not replay:
        write_evidence(prop, ev)
    for l in lines:
        print(l)
    print("%s %s: %s  (obligations %d/%d, %s, %.1fs)" % (
        prop, tier, "VIOLATION" if exit_code else "ok", n_dis, n_obl,
        ", ".join("%s=%s" % (k, cov[k]) for k in ("programs", "evaluations", "distinct_nontrivial", "disagreements_checked") if k in cov),
        time.time() - t0))
    return exit_code


if __name__ == "__main__":
    sys.exit(main(sys.argv))
