"""Checks of the validation properties (filled in later)."""
PROPS = {}


def run(ctx):
    raise NotImplementedError
