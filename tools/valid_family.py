"""Checks of the validation properties C09, C10, C11, C16, C19 (model: PfdlModel/Check.lean)."""
import contextlib
import copy
import hashlib
import io
import json
import multiprocessing as mp
import os
import random
import re
import shutil
import signal
import subprocess
import sys
import tempfile
import time

import findings
import progs
import vgen
from sched_family import run_model, _init_worker, CaseTimeout, _alarm

HERE = os.path.dirname(os.path.abspath(__file__))
VERIF = os.path.abspath(os.path.join(HERE, ".."))

PROPS = {"C09", "C10", "C11", "C16", "C19"}

KIND_PATTERNS = [
    (r"^Unknown Task '", "unknown_task"),
    (r"^Unknown Struct '", "unknown_struct"),
    (r"^Unknown data type '", "unknown_datatype"),
    (r"^Unknown variable '", "unknown_variable"),
    (r"^An unknown variable '.*' is used as input of", "unknown_variable_input"),
    (r"^An unknown variable '.*' is used in the Task Output", "unknown_task_output"),
    (r"^Struct '.*' has no attribute '", "no_attribute"),
    (r"^Attribute '.*' is not a Struct", "not_a_struct"),
    (r"^Attribute '.*' is not an Array", "not_an_array"),
    (r"^The elements of Array '.*' are no Structs", "elements_no_structs"),
    (r"^Array elements can not be used in expressions", "array_in_expression"),
    (r"^A string can not be used as boolean expression", "string_condition"),
    (r"^A string can not be negated", "string_negated"),
    (r"^The Struct instantiation is not valid JSON", "invalid_json"),
    (r"^The program is nested too deeply", "too_deep"),
    (r"^Attribute '.*' is not defined in the instantiated struct", "missing_attribute"),
    (r"^Unknown attribute '.*' in instantiated struct", "unknown_attribute"),
    (r"^Attribute '.*' has the wrong type in the instantiated", "wrong_attribute_type"),
    (r"^Array has elements that does not match", "array_element_type"),
    (r"^Length of the defined array and the instantiated do not match", "array_length"),
    (r"^Inputparameter length", "input_length"),
    (r"^Outputparameter length", "output_length"),
    (r"^Type of TaskCall parameter", "input_type"),
    (r"^Type of TaskCall output parameter", "output_type"),
    (r"^Types of right and left side of the comparison", "comparison_types"),
    (r"^Right and left side have to be numbers", "arithmetic_types"),
    (r"^The given attribute can not be resolved to a boolean", "not_boolean"),
    (r"^The limit of a counting loop has to be a number", "limit_not_number"),
    (r"^Only a single task is allowed in a parallel loop", "parallel_loop_body"),
    (r"is recursive$", "recursion"),
    (r"^Right and left side have to be boolean expressions", "and_or_types"),
    (r"^The file contains no '", "no_production_task"),
    (r"^A Struct with the name '", "duplicate_struct"),
    (r"^A Task with the name '", "duplicate_task"),
    (r"^An attribute with the name '", "duplicate_attribute"),
    (r"^There is already a input paramter", "duplicate_in_param"),
    (r"^There is already a output parameter", "duplicate_out_param"),
]
KIND_RES = [(re.compile(p), k) for p, k in KIND_PATTERNS]
LINE_RE = re.compile(r"^File (.*), in line (-?\d+):(-?\d+)$")


def classify(msg):
    for rx, k in KIND_RES:
        if rx.search(msg):
            return k
    return "syntax_or_other"


def parse_console(out):
    """console format: message line, then 'File <path>, in line L:C'"""
    errs = []
    lines = out.split("\n")
    i = 0
    msg = []
    while i < len(lines):
        m = LINE_RE.match(lines[i])
        if m:
            text = "\n".join(msg)
            errs.append({"msg": text, "kind": classify(text), "line": int(m.group(2)), "col": int(m.group(3))})
            msg = []
        elif lines[i] != "" or msg:
            msg.append(lines[i])
        i += 1
    leftover = "\n".join(msg).strip()
    return errs, leftover


def parse_extension(out):
    """extension format: message, line, column, length - one per line"""
    lines = [l for l in out.split("\n")]
    errs = []
    i = 0
    while i + 3 < len(lines) + 1 and i < len(lines):
        if lines[i] == "" and i == len(lines) - 1:
            break
        # message may itself not contain newlines (all messages are single-line)
        try:
            errs.append({"msg": lines[i], "kind": classify(lines[i]), "line": int(lines[i + 1]), "col": int(lines[i + 2])})
        except (ValueError, IndexError):
            return errs, "\n".join(lines[i:])
        i += 4
    return errs, ""


def run_validator_file(text):
    """the text written to a file and validated through its path (parse_program); the worker re-uses ONE path for all
    its programs, as an application does that validates a file again after it has been edited"""
    from pfdl_scheduler.utils.parsing_utils import parse_program

    path = os.path.join(os.getcwd(), "validated_%d.pfdl" % os.getpid())
    with open(path, "w", newline="") as f:
        f.write(text)
    buf = io.StringIO()
    res = {"valid": None, "exc": None}
    try:
        with contextlib.redirect_stdout(buf):
            r = parse_program(path)
        res["valid"] = bool(r[0])
    except Exception as ex:  # noqa: BLE001
        res["exc"] = type(ex).__name__
    res["out"] = buf.getvalue()
    res["errs"], res["leftover"] = parse_console(res["out"])
    return res


def file_revalidation_problems(text_a, text_b):
    """validation through a path, as an application does it over time: the same file validated twice in a row gives the
    same verdict and the same messages; a file whose content is replaced while its modification time is kept (cp -p,
    rsync -t) is validated as what it contains now"""
    from pfdl_scheduler.utils.parsing_utils import parse_program

    def val(path):
        buf = io.StringIO()
        try:
            with contextlib.redirect_stdout(buf):
                r = parse_program(path)
            return bool(r[0]), re.sub(r"File .*?, in line", "File, in line", buf.getvalue())
        except Exception as ex:  # noqa: BLE001
            return "raised " + type(ex).__name__, buf.getvalue()

    probs = []
    path = os.path.join(os.getcwd(), "revalidated_%d.pfdl" % os.getpid())
    with open(path, "w", newline="") as f:
        f.write(text_a)
    st = os.stat(path)
    a1 = val(path)
    a2 = val(path)
    if a1 != a2:
        probs.append("the same unchanged file validated twice: first %r, then %r" % ((a1[0], a1[1][:120]), (a2[0], a2[1][:120])))
    if (a2[0] is True) != (a2[1] == "") and not str(a2[0]).startswith("raised"):
        probs.append("second validation of the same file: verdict %r but output %r" % (a2[0], a2[1][:120]))
    with open(path, "w", newline="") as f:
        f.write(text_b)
    os.utime(path, ns=(st.st_atime_ns, st.st_mtime_ns))
    b1 = val(path)
    with open(path + ".fresh", "w", newline="") as f:
        f.write(text_b)
    b0 = val(path + ".fresh")
    if b1 != b0:
        probs.append("a file whose content was replaced (modification time kept) is validated as %r, the same content in a fresh file as %r" % ((b1[0], b1[1][:120]), (b0[0], b0[1][:120])))
    return probs


NO_VERDICT_S = 25
_IN_WORKER = [False]
_NO_VERDICT_CONFIRMED = [False]


def confirm_no_verdict(text):
    """the same text in a fresh interpreter, alone: True if it still gets no verdict within 90 s"""
    code = ("import sys, io, contextlib\nsys.path.insert(0, %r)\nsys.setrecursionlimit(3000)\n"
            "from pfdl_scheduler.utils.parsing_utils import parse_string\n"
            "t = sys.stdin.read()\n"
            "with contextlib.redirect_stdout(io.StringIO()):\n"
            "    try:\n        parse_string(t)\n    except BaseException:\n        pass\n" % os.environ.get("PFDL_REPO", "/repo"))
    try:
        subprocess.run([sys.executable, "-c", code], input=text, text=True, capture_output=True, timeout=90, cwd=tempfile.gettempdir())
        return False
    except subprocess.TimeoutExpired:
        return True
    except Exception:  # noqa: BLE001
        return False


def run_validator(text, extension=False):
    """returns dict(valid, exc, out, errs)"""
    from pfdl_scheduler.utils.parsing_utils import parse_string

    buf = io.StringIO()
    res = {"valid": None, "exc": None}
    # "validation terminates": a verdict normally takes milliseconds.  A text that gets none within NO_VERDICT_S seconds is
    # re-run alone in a fresh process with a longer limit before anything is reported (confirm_no_verdict)
    t0 = time.time()
    # once a text without verdict has been confirmed in this worker, further ones are cut short and dropped
    limit = 4 if _NO_VERDICT_CONFIRMED[0] else NO_VERDICT_S
    prev = signal.alarm(limit) if _IN_WORKER[0] and len(text) < 20000 else None
    try:
        with contextlib.redirect_stdout(buf):
            r = parse_string(text, used_in_extension=extension)
        res["valid"] = bool(r[0]) if isinstance(r, tuple) and len(r) == 2 else "not-a-pair"
        res["has_process"] = r[1] is not None if isinstance(r, tuple) and len(r) == 2 else None
    except CaseTimeout:
        if prev is None or prev and prev - (time.time() - t0) <= 1:
            raise  # the job's own limit
        res["exc"] = "NoVerdict"
        res["exc_msg"] = "no verdict within %d s" % NO_VERDICT_S
        if _NO_VERDICT_CONFIRMED[0]:
            res["exc"] = None
            raise
        if confirm_no_verdict(text):
            _NO_VERDICT_CONFIRMED[0] = True
        else:
            # a loaded machine, not the validator: drop the case like any other harness time-out
            if prev:
                signal.alarm(max(1, int(prev - (time.time() - t0))))
            raise
    except RecursionError:
        res["exc"] = "RecursionError"
    except Exception as ex:  # noqa: BLE001
        res["exc"] = type(ex).__name__
        res["exc_msg"] = str(ex)[:200]
    finally:
        if prev is not None:
            if res["exc"] == "NoVerdict":
                signal.alarm(150)  # the confirmation took its time: the job goes on with a fresh budget
            else:
                signal.alarm(max(1, int(prev - (time.time() - t0))) if prev else 0)
    out = buf.getvalue()
    res["out"] = out
    res["errs"], res["leftover"] = (parse_extension(out) if extension else parse_console(out))
    return res


# ---------------------------------------------------------------------------------------------
# nodes and spans


def all_nodes(prog):
    """every struct, task, statement and call with its line span"""
    nodes = []
    for s in prog.get("structs", []):
        nodes.append(s)
    for t in prog.get("tasks", []):
        nodes.append(t)

        def visit(stmts):
            for st in stmts:
                nodes.append(st)
                k = st["k"]
                if k == "par":
                    nodes.extend(st["calls"])
                elif k == "cond":
                    visit(st["passed"])
                    if st.get("failed"):
                        visit(st["failed"])
                elif k in ("cloop", "wloop"):
                    visit(st["body"])
                elif k == "ploop":
                    if st.get("body") is not None:
                        visit(st["body"])
                    elif st.get("call") is not None:
                        nodes.append(st["call"])

        visit(t["body"])
    return [n for n in nodes if "line" in n]


def node_line_of(nodes, line):
    """start line of the innermost node whose span contains `line` (None if outside every node)"""
    best = None
    for n in nodes:
        if n["line"] <= line <= n.get("end_line", n["line"]):
            if best is None or (n.get("end_line", n["line"]) - n["line"]) <= (best.get("end_line", best["line"]) - best["line"]):
                best = n
    return best["line"] if best else None


def source_order(prog):
    """definitions in the order of the text (the visitor keeps the first definition of a name)"""
    p = dict(prog)
    p["structs"] = sorted(prog.get("structs", []), key=lambda x: x.get("line", 0))
    p["tasks"] = sorted(prog.get("tasks", []), key=lambda x: x.get("line", 0))
    return p


def _front_tokens(text):
    import syntax_tie

    try:
        tk = syntax_tie.syntax_tokens(text, leaves="value")
    except Exception:  # noqa: BLE001
        return None
    return tk[0] if tk else None


def impl_projection(res, nodes):
    out = []
    for e in res["errs"]:
        if e["kind"] == "no_production_task":
            out.append([e["kind"], 1])
        else:
            out.append([e["kind"], node_line_of(nodes, e["line"])])
    return sorted(out, key=lambda x: (x[0], x[1] or -1))


def model_projection(resp):
    return sorted([[k, l] for k, l in resp.get("errors", [])], key=lambda x: (x[0], x[1] or -1))


# ---------------------------------------------------------------------------------------------
# jobs


_FULL_VARS = list(vgen.VAR_NAMES)
_FULL_ATTRS = list(vgen.ATTR_NAMES)


def gen_wf(rng, size):
    """well-formed program; for a share of the programs names are drawn from a narrow pool, so that different
    tasks reuse variable names for different struct types and different structs share attribute names"""
    if rng.random() < 0.4:
        vgen.VAR_NAMES = _FULL_VARS[:4]
        # attribute names that are also variable names (a struct attribute `pr` next to a task variable `pr`)
        vgen.ATTR_NAMES = _FULL_ATTRS[:8] + _FULL_VARS[:3]
    else:
        vgen.VAR_NAMES = _FULL_VARS
        vgen.ATTR_NAMES = _FULL_ATTRS
    try:
        return vgen.gen_wf_program(rng, size=size)
    finally:
        vgen.VAR_NAMES = _FULL_VARS
        vgen.ATTR_NAMES = _FULL_ATTRS


def gen_shadow_program(rng, fault=False):
    """directed family: two tasks use the same variable name for different struct types whose equally named
    attributes have different types; the same path text is passed to task calls and used in expressions in both.
    fault=True: the second task uses its attribute with the operators that fit the first task's type."""
    ta, tb = rng.choice([("number", "boolean"), ("number", "string"), ("boolean", "number")])
    v = rng.choice(["part", "r", "obj"])
    a = rng.choice(["size", "a", "state"])

    def lit_of(ty):
        return 1 if ty == "number" else True if ty == "boolean" else "x"

    def expr_for(ty, path):
        if ty == "number":
            return {"binOp": ">", "left": path, "right": 1}
        if ty == "boolean":
            return {"binOp": "And", "left": path, "right": True}
        return {"binOp": "<", "left": path, "right": '"m"'}

    structs = [{"name": "SA", "attrs": [[a, ta], ["k", "number"]]}, {"name": "SB", "attrs": [[a, tb], ["k", "number"]]}]
    use = {"number": "useNumber", "boolean": "useBoolean", "string": "useString"}
    tasks = [{"name": "productionTask", "ins": [], "outs": [], "body": [{"k": "call", "name": "first", "ins": [], "outs": []},
                                                                          {"k": "call", "name": "second", "ins": [], "outs": []}]}]
    for name, sname, ty in (("first", "SA", ta), ("second", "SB", tb)):
        ety = ta if (fault and name == "second") else ty
        body = [{"k": "svc", "name": "Get", "ins": [], "outs": [[v, sname]]}]
        uses = []
        if rng.random() < 0.75:
            uses.append({"k": "cond", "e": expr_for(ety, [v, a]), "passed": [{"k": "svc", "name": "Work", "ins": [v], "outs": []}], "failed": None})
        if ety == "number" and rng.random() < 0.4:
            uses.append({"k": "cloop", "var": "j", "limit": [v, a], "body": [{"k": "svc", "name": "Count", "ins": [], "outs": []}]})
        if rng.random() < 0.5 or not uses:
            uses.append({"k": "call", "name": use[ty], "ins": [[v, a]], "outs": []})
        if fault and name == "second" and not any(u["k"] in ("cond", "cloop") for u in uses):
            uses.insert(0, {"k": "cond", "e": expr_for(ety, [v, a]), "passed": [{"k": "svc", "name": "Work", "ins": [v], "outs": []}], "failed": None})
        tasks.append({"name": name, "ins": [], "outs": [], "body": body + uses})
    for ty in {ta, tb}:
        tasks.append({"name": use[ty], "ins": [["x", ty]], "outs": [], "body": [{"k": "svc", "name": "Use", "ins": ["x"], "outs": []}]})
    rest = tasks[1:]
    rng.shuffle(rest)
    prog = {"structs": structs if rng.random() < 0.5 else structs[::-1], "tasks": [tasks[0]] + rest if rng.random() < 0.5 else rest + [tasks[0]]}
    return prog


def gen_nonstruct_access_program(rng):
    """directed family: an attribute access whose root variable is declared with a primitive or an array type
    (the language has no syntax to look into those): must be reported, wherever the access is used"""
    vty = rng.choice(["number[]", "number", "string", "S[]", "boolean[2]"])
    attr = rng.choice(["a", "foo", "k"])
    path = ["v", attr] if rng.random() < 0.7 else ["v", attr, "k"]
    structs = [{"name": "S", "attrs": [["a", "number"], ["k", "number"]]}]
    if rng.random() < 0.3:
        # the root is a struct, but an attribute on the way is an array and is followed by a further attribute
        # without an index (`order.items.weight` for `items: Item[]`)
        structs.append({"name": "T", "attrs": [["items", rng.choice(["S[]", "S[3]"])], ["nums", "number[]"], ["k", "number"]]})
        vty = "T"
        path = rng.choice([["v", "items", "a"], ["v", "nums", "foo"], ["v", "items", "a", "k"], ["v", "nums", "k"]])
    use = rng.choice(["svc_in", "cond", "limit", "call_in", "wloop", "cond_bool"])
    callee = {"name": "other", "ins": [["x", "number"]], "outs": [], "body": [{"k": "svc", "name": "Use", "ins": ["x"], "outs": []}]}
    if use == "svc_in":
        stmt = {"k": "svc", "name": "Work", "ins": [path], "outs": []}
    elif use == "cond":
        stmt = {"k": "cond", "e": {"binOp": rng.choice([">", "==", "+"]), "left": path, "right": 1} if rng.random() < 0.8 else
                {"binOp": ">", "left": {"left": "(", "binOp": {"binOp": "+", "left": path, "right": 1}, "right": ")"}, "right": 2},
                "passed": [{"k": "svc", "name": "Work", "ins": [], "outs": []}], "failed": None}
    elif use == "cond_bool":
        stmt = {"k": "cond", "e": path if rng.random() < 0.5 else {"unOp": "!", "value": path},
                "passed": [{"k": "svc", "name": "Work", "ins": [], "outs": []}], "failed": None}
    elif use == "wloop":
        stmt = {"k": "wloop", "e": {"binOp": "And", "left": path, "right": True}, "body": [{"k": "svc", "name": "Work", "ins": [], "outs": []}]}
    elif use == "limit":
        stmt = {"k": "cloop", "var": "i", "limit": path, "body": [{"k": "svc", "name": "Work", "ins": [], "outs": []}]}
    else:
        stmt = {"k": "call", "name": "other", "ins": [path], "outs": []}
    if rng.random() < 0.5:
        main = {"name": "productionTask", "ins": [], "outs": [], "body": [{"k": "svc", "name": "Get", "ins": [], "outs": [["v", vty]]}, stmt]}
        tasks = [main, callee]
    else:
        main = {"name": "productionTask", "ins": [], "outs": [], "body": [{"k": "svc", "name": "Get", "ins": [], "outs": [["w", vty]]},
                                                                         {"k": "call", "name": "sub", "ins": ["w"], "outs": []}]}
        sub = {"name": "sub", "ins": [["v", vty]], "outs": [], "body": [stmt]}
        tasks = [main, sub, callee]
    return {"structs": structs, "tasks": tasks}


def job_nonstruct(args):
    seed, = args
    rng = random.Random(seed)
    prog = gen_nonstruct_access_program(rng)
    text = vgen.print_program(prog, None)
    return {"seed": seed, "fault": True, "prog": prog, "text": text, "res": run_validator(text)}


def job_shadow(args):
    seed, fault = args
    rng = random.Random(seed)
    prog = gen_shadow_program(rng, fault)
    text = vgen.print_program(prog, None)
    return {"seed": seed, "fault": fault, "prog": prog, "text": text, "res": run_validator(text)}


def job_wf(args):
    """C11 / C16 / correspondence on a well-formed program: layouts and a permutation"""
    seed, size = args
    rng = random.Random(seed)
    signal.signal(signal.SIGALRM, _alarm)
    _IN_WORKER[0] = True
    signal.alarm(120)
    try:
        prog = gen_wf(rng, size)
        variants = []
        layouts = [None] + [random_layout(rng) for _ in range(2)]
        for li, lay in enumerate(layouts):
            p = copy.deepcopy(prog)
            text = vgen.print_program(p, lay)
            if li > 0:
                text = with_leading_lines(rng, p, text)
            r = run_validator(text)
            variants.append({"what": "layout %d %r" % (li, lay), "prog": p, "text": text, "res": r})
        pp = vgen.permute_definitions(copy.deepcopy(prog), rng)
        text = vgen.print_program(pp, None)
        r = run_validator(text)
        variants.append({"what": "permuted definitions", "prog": pp, "text": text, "res": r})
        rx = run_validator(variants[0]["text"], extension=True)
        signal.alarm(0)
        return {"seed": seed, "variants": variants, "ext": rx}
    except CaseTimeout:
        return {"seed": seed, "timeout": True, "variants": []}
    finally:
        signal.alarm(0)


def shift_lines(prog, k):
    """all recorded line numbers move down by k (k leading lines were put in front of the text)"""
    def walk_(x):
        if isinstance(x, dict):
            for key in ("line", "end_line", "e_line"):
                if key in x and isinstance(x[key], int):
                    x[key] += k
            for v in x.values():
                walk_(v)
        elif isinstance(x, list):
            for v in x:
                walk_(v)
    walk_(prog)


def with_leading_lines(rng, prog, text):
    """blank lines / a comment header in front of the program (layout the language treats as insignificant)"""
    if rng.random() < 0.35:
        k = rng.randint(1, 5)
        # comment lines may hold any character except a line feed: also the ones that other tools read as line ends
        # (form feed, vertical tab, NEL, LS, PS) - they are no line ends for the language and must not move a line number
        head = "".join(rng.choice(["\n", "# header comment\n", "   \n", "# page \x0c break\n", "# a\u2028b\x0bc\x85d\u2029e\n"]) for _ in range(k))
        if "\r\n" in text:
            head = head.replace("\n", "\r\n")
        shift_lines(prog, k)
        return head + text
    return text


def random_layout(rng):
    return {"indent": rng.choice([1, 2, 3, 4, 5, 8]), "comments": rng.random() < 0.5, "blank_lines": rng.random() < 0.5,
            "trailing_blanks": rng.random() < 0.4, "crlf": rng.random() < 0.3, "no_final_newline": rng.random() < 0.3,
            "literal_style": rng.choice([0, 1, 2])}


# classes of vgen's catalogue that the property's catalogue does not name (the documentation is silent on them)
EXCLUDED_CLASSES = {"expr_mixed_type_equality"}


def _path_type(prog, task_name, path):
    structs = {s["name"]: s for s in prog["structs"]}
    task = next((t for t in prog["tasks"] if t["name"] == task_name), None)
    if task is None:
        return None
    ty = None
    for x, xt in task.get("ins", []):
        if x == path[0]:
            ty = xt
    for st in progs.walk(task["body"]):
        calls = [st] if st["k"] in ("svc", "call") else st.get("calls", []) if st["k"] == "par" else [st["call"]] if st["k"] == "ploop" and st.get("call") else []
        for c in calls:
            for x, xt in c.get("outs", []) or []:
                if x == path[0]:
                    ty = xt
    for seg in path[1:]:
        if ty is None or seg.startswith("["):
            return None
        s = structs.get(ty)
        if s is None:
            return None
        ty = dict((a, t) for a, t in s["attrs"]).get(seg)
    return ty


def known_fault_shape(info, prog=None):
    """K7a: a boolean literal as operand of an arithmetic / ordering operator is accepted (expression_is_number counts
    booleans as numbers; the unit test test_expression_is_number pins this) - harmless at run time (True == 1).
    K7b: negation of a number is accepted (test_check_unary_operation pins it; Python's `not` is defined on numbers)."""
    w = info.get("where") or ""
    if info["cls"] != "expr_ill_typed_operand" or ":= " not in w:
        return False
    head, val = w.rsplit(":= ", 1)
    if "number operand" in head and val in ("true", "false"):
        return True
    if "boolean operand" in head:
        ref = head.split("operand", 1)[1].strip().split(".")
        while ref and ref[-1] == "binOp":
            ref.pop()
        if ref and ref[-1] == "value":
            try:
                float(val)
                return True
            except ValueError:
                pass
            if prog is not None and not val.startswith('"') and val not in ("true", "false"):
                m = re.match(r"task (\S+) >", w)
                if m and _path_type(prog, m.group(1), val.split(".")) == "number":
                    return True
    return False


POSITION_CLASSES = {"unknown_variable_in_expression", "unknown_attribute_in_expression", "expr_ill_typed_operand",
                    "unknown_variable_in_loop_limit", "unknown_attribute_in_loop_limit", "limit_ill_typed",
                    "unknown_attribute_in_path", "unknown_variable_in_path_root", "call_arg_type_path"}


def job_faults(args):
    """C10 / C19 / C16 / correspondence on single-fault programs"""
    seed, size, k = args
    rng = random.Random(seed)
    signal.signal(signal.SIGALRM, _alarm)
    _IN_WORKER[0] = True
    signal.alarm(180)
    out = []
    try:
        prog = gen_wf(rng, size)
        if k < 0:
            # every position: all single faults of the classes that sit inside expressions / paths (capped)
            fl = [f for f in vgen.enumerate_faults(prog) if f["cls"] in POSITION_CLASSES]
            rng.shuffle(fl)
            pairs = [vgen.apply_fault(prog, f) for f in fl[:36]]
        else:
            pairs = vgen.sample_faults(prog, rng, k)
        for mp_, info in pairs:
            if info["cls"] in EXCLUDED_CLASSES:
                continue
            if known_fault_shape(info, mp_):
                continue
            lay = random_layout(rng) if rng.random() < 0.5 else None
            if rng.random() < 0.5 and not info.get("whole_file") and not info["cls"].startswith("duplicate_"):
                # definitions in another order (callers before / after their callees, structs after their users)
                mp_ = vgen.permute_definitions(mp_, rng)
            tgt = info.get("target") or []
            directed_tail = info["cls"] == "unknown_type_in_task_in" and len(tgt) >= 2 and tgt[0] == "tasks"
            if (directed_tail or rng.random() < 0.2) and not info.get("whole_file") and not info["cls"].startswith("duplicate_"):
                # a struct BEHIND all tasks whose attributes are named like the parameters and variables of the tasks
                # (names are per definition: a message about a task's parameter must not be located in that struct)
                names = []
                if directed_tail and tgt[1] < len(mp_["tasks"]):
                    names = [x_ for x_, _ty in mp_["tasks"][tgt[1]].get("ins", [])]
                for t_ in mp_["tasks"]:
                    for x_, _ty in t_.get("ins", []):
                        if x_ not in names:
                            names.append(x_)
                    for x_ in vgen.task_vars(t_):
                        if x_ not in names:
                            names.append(x_)
                taken = {x["name"] for x in mp_["structs"]} | {x["name"] for x in mp_["tasks"]}
                if names and "TailNames" not in taken:
                    mp_ = copy.deepcopy(mp_)
                    if not mp_.get("order"):
                        mp_.pop("order", None)
                        mp_["order"] = vgen.default_order(mp_)
                    mp_["structs"].append({"name": "TailNames", "attrs": [[x_, "number"] for x_ in names[:8]]})
                    entry = ["struct", len(mp_["structs"]) - 1]
                    order_ = [list(x) for x in mp_["order"]]
                    if directed_tail and ["task", tgt[1]] in order_ and rng.random() < 0.8:
                        # directly behind the task the fault is in
                        order_.insert(order_.index(["task", tgt[1]]) + 1, entry)
                    else:
                        order_.append(entry)
                    mp_["order"] = order_
            text = vgen.print_program(mp_, lay)
            text = with_leading_lines(rng, mp_, text)
            target = vgen.resolve_target(mp_, info)
            if info["cls"].startswith("literal_"):
                # the same faulty literal has been validated before in this process, further down in a longer text
                run_validator("# earlier version\n" * rng.randint(3, 40) + text)
            r = run_validator(text)
            rx = run_validator(text, extension=True)
            rfile = run_validator_file(text) if (rng.random() < 0.3 and "\r" not in text) else None
            out.append({"cls": info["cls"], "whole_file": bool(info.get("whole_file")), "prog": mp_, "text": text, "file": rfile,
                        "span": [target.get("line"), target.get("end_line", target.get("line"))] if target else None,
                        "res": r, "ext": rx, "nlines": text.count("\n") + 1, "where": info.get("where")})
        # a character outside the language, as the first or the last thing on the first line of a statement / definition
        for _ in range(2 if k >= 0 else 0):
            wp = copy.deepcopy(prog)
            lay = random_layout(rng) if rng.random() < 0.7 else None
            text = vgen.print_program(wp, lay)
            text = with_leading_lines(rng, wp, text)
            nodes = []

            def walk(n):
                if isinstance(n, dict):
                    if "line" in n and "end_line" in n and ("k" in n or "attrs" in n or "body" in n):
                        nodes.append(n)
                    for v in n.values():
                        walk(v)
                elif isinstance(n, list):
                    for v in n:
                        walk(v)
            walk(wp)
            if not nodes:
                continue
            node = rng.choice(nodes)
            nl = "\r\n" if "\r\n" in text else "\n"
            lines = text.split(nl)
            li = node["line"] - 1
            if li >= len(lines) or not lines[li].strip() or lines[li].lstrip().startswith("#"):
                continue
            ch = rng.choice(["$", "@", "~", "^", "?", "`", ";", "\\", "%", "&", "|"])
            l = lines[li]
            ind = len(l) - len(l.lstrip(" "))
            if rng.random() < 0.7:
                lines[li] = l[:ind] + ch + rng.choice(["", " "]) + l[ind:]
                where = "first on the line"
            else:
                body = l.split("#")[0].rstrip() if '"' not in l else None
                if body is None:
                    continue
                lines[li] = body + " " + ch + l[len(body):]
                where = "last on the line"
            # smallest statement / definition whose lines contain that line
            inner = min((n for n in nodes if n["line"] <= node["line"] <= n["end_line"]), key=lambda n: n["end_line"] - n["line"])
            t2 = nl.join(lines)
            r = run_validator(t2)
            rx = run_validator(t2, extension=True)
            out.append({"cls": "illegal_character", "whole_file": False, "prog": wp, "text": t2,
                        "span": [inner["line"], inner["end_line"]], "res": r, "ext": rx, "nlines": t2.count("\n") + 1,
                        "where": "%r %s %d" % (ch, where, node["line"])})
        # a struct literal the lexer accepts but json.loads rejects (an escape that is none, a broken unicode escape, a
        # raw tab inside a string): reported within the statement, no line outside the file
        for _ in range(1 if k >= 0 else 0):
            wp = copy.deepcopy(prog)
            text = vgen.print_program(wp, random_layout(rng) if rng.random() < 0.5 else None)
            text = with_leading_lines(rng, wp, text)
            nl = "\r\n" if "\r\n" in text else "\n"
            lines = text.split(nl)
            cand = [i for i, l in enumerate(lines) if "{" in l and "#" not in l[: l.index("{")]]
            nodes = []

            def walk2(n):
                if isinstance(n, dict):
                    if "line" in n and "end_line" in n and ("k" in n or "body" in n):
                        nodes.append(n)
                    for v in n.values():
                        walk2(v)
                elif isinstance(n, list):
                    for v in n:
                        walk2(v)
            walk2(wp)
            if not cand or not nodes:
                continue
            li = rng.choice(cand)
            enc = [n for n in nodes if n["line"] <= li + 1 <= n["end_line"]]
            if not enc:
                continue
            inner = min(enc, key=lambda n: n["end_line"] - n["line"])
            pos = lines[li].index("{")
            bad = rng.choice(['"zq": "x\\q", ', '"zq": "\\u12", ', '"zq": "a\tb", '])
            lines[li] = lines[li][: pos + 1] + bad + lines[li][pos + 1:]
            t2 = nl.join(lines)
            r = run_validator(t2)
            rx = run_validator(t2, extension=True)
            out.append({"cls": "literal_not_json", "whole_file": False, "prog": wp, "text": t2,
                        "span": [inner["line"], inner["end_line"]], "res": r, "ext": rx, "nlines": t2.count("\n") + 1,
                        "where": "line %d" % (li + 1)})
        signal.alarm(0)
        return {"seed": seed, "faults": out}
    except CaseTimeout:
        return {"seed": seed, "timeout": True, "faults": out}
    finally:
        signal.alarm(0)


# G-text: malformed stream -------------------------------------------------------------------

TOKENS = ["Struct", "Task", "In", "Out", "Loop", "While", "To", "Parallel", "Condition", "Passed", "Failed", "End",
          "number", "string", "boolean", "true", "false", ":", ".", ",", "{", "}", "[", "]", "(", ")", "<", "<=", ">", ">=",
          "==", "!=", "And", "Or", "!", "*", "/", "-", "+", "1", "2.5", "\"s\"", "x", "Abc", "productionTask", "\n", "\n    ",
          "\n        ", "#c"]
WEIRD = ["§", "\t", "ä", "\x00", "\x7f", "'", "$", "@", "\\", "\"", " ", "`", "~", ";", "^", "%", "&", "|", "?"]


def mutate_text(rng, text):
    kind = rng.choice(["delete_tok", "dup_tok", "swap_tok", "replace_tok", "char_del", "char_ins", "truncate", "random_tokens",
                       "weird_char", "line_del", "line_dup", "indent_shift", "json_break", "deep_parens", "huge_number", "huge_number", "tab_indent", "array_len_name"])
    toks = re.findall(r"\s+|[A-Za-z_][A-Za-z0-9_]*|\d+\.\d+|\d+|\"[^\"\n]*\"|==|!=|<=|>=|.", text)
    if kind == "tab_indent":
        # tabs in the indentation (the lexer skips tabs: the nesting is read from the blanks only)
        lines = text.split("\n")
        which = rng.choice(["all", "one", "mixed"])
        for i, l in enumerate(lines):
            ind = len(l) - len(l.lstrip(" "))
            if ind >= 4 and (which == "all" or (which == "one" and i == len(lines) // 2) or (which == "mixed" and rng.random() < 0.5)):
                lines[i] = "\t" * (ind // 4) + " " * (ind % 4) + l[ind:]
        return kind, "\n".join(lines)
    if kind == "array_len_name":
        # the length of an array type written as a name (`number[parts_count]`): a message is printed by the visitor
        ms = list(re.finditer(r"(:\s*[A-Za-z_][A-Za-z0-9_]*\[)(\d*)(\])", text))
        if ms:
            m = rng.choice(ms)
            return kind, text[: m.start(2)] + rng.choice(["n", "parts_count", "len", "i"]) + text[m.end(2):]
        return kind, text.replace("End", "    A\n        Out\n            xs: number[n]\nEnd", 1)
    if kind == "huge_number":
        # a number written with thousands of digits (Python refuses to convert integers above 4300 digits), anywhere
        # a number stands: loop limits, array lengths, expressions, struct literals; positive, negative, fraction, exponent
        nums = [i for i, t in enumerate(toks) if re.fullmatch(r"\d+(\.\d+)?", t)]
        big = rng.choice(["9" * 4301, "1" + "0" * 5000, "9" * 4300, "7" * 6000 + ".5", "0." + "3" * 5000, "1e99999", "1" * 4400 + "e3"])
        if nums:
            toks[rng.choice(nums)] = big
            return kind, "".join(toks)
        return kind, text.replace("End", "Loop i To %s\n        A\nEnd" % big, 1)
    if kind == "delete_tok" and toks:
        i = rng.randrange(len(toks))
        del toks[i]
        return kind, "".join(toks)
    if kind == "dup_tok" and toks:
        i = rng.randrange(len(toks))
        toks.insert(i, toks[i])
        return kind, "".join(toks)
    if kind == "swap_tok" and len(toks) > 2:
        i = rng.randrange(len(toks) - 1)
        toks[i], toks[i + 1] = toks[i + 1], toks[i]
        return kind, "".join(toks)
    if kind == "replace_tok" and toks:
        i = rng.randrange(len(toks))
        toks[i] = rng.choice(TOKENS)
        return kind, "".join(toks)
    if kind == "char_del" and text:
        i = rng.randrange(len(text))
        return kind, text[:i] + text[i + 1:]
    if kind == "char_ins":
        i = rng.randrange(len(text) + 1)
        return kind, text[:i] + rng.choice(WEIRD + list("abcXYZ019 {}[]\":,.")) + text[i:]
    if kind == "truncate" and text:
        return kind, text[: rng.randrange(len(text))]
    if kind == "random_tokens":
        return kind, " ".join(rng.choice(TOKENS) for _ in range(rng.randint(1, 60)))
    if kind == "weird_char":
        i = rng.randrange(len(text) + 1)
        return kind, text[:i] + rng.choice(WEIRD) + text[i:]
    lines = text.split("\n")
    if kind == "line_del" and len(lines) > 1:
        del lines[rng.randrange(len(lines))]
        return kind, "\n".join(lines)
    if kind == "line_dup" and lines:
        i = rng.randrange(len(lines))
        lines.insert(i, lines[i])
        return kind, "\n".join(lines)
    if kind == "indent_shift" and lines:
        i = rng.randrange(len(lines))
        lines[i] = (" " * rng.randint(1, 3) + lines[i]) if rng.random() < 0.5 else lines[i][rng.randint(1, 3):]
        return kind, "\n".join(lines)
    if kind == "json_break":
        js = [m.start() for m in re.finditer(r"\{", text)]
        if js:
            i = rng.choice(js)
            ins = rng.choice(['"a": "x\\q", ', '"a": 01, ', '"a": [1,], ', '"a" 1, ', '"a": {"b": }, ', '"\t": 1, ', '"a": tru, ', '"a": 1e999, '])
            return kind, text[: i + 1] + ins + text[i + 1:]
    if kind == "deep_parens":
        n = rng.choice([5, 30, 120])
        m = re.search(r"Condition\n(\s+)(.*)\n", text)
        if m:
            return kind, text[: m.start(2)] + "(" * n + m.group(2) + ")" * n + text[m.end(2):]
    return "identity", text


def job_text(args):
    seed, size, k = args
    rng = random.Random(seed)
    signal.signal(signal.SIGALRM, _alarm)
    _IN_WORKER[0] = True
    signal.alarm(180)
    out = []
    try:
        prog = gen_wf(rng, size)
        base = vgen.print_program(copy.deepcopy(prog), random_layout(rng) if rng.random() < 0.5 else None)
        texts_seen = []
        for _ in range(k):
            kind, text = mutate_text(rng, base)
            if rng.random() < 0.3:
                kind2, text = mutate_text(rng, text)
                kind = kind + "+" + kind2
            r = run_validator(text)
            inert = None
            if r["exc"] is None and r["valid"] is False:
                inert = check_inert(text)
            rec = {"kind": kind, "text": text, "res": r, "inert": inert}
            if texts_seen and rng.random() < 0.25 and "\x00" not in text and r["exc"] is None:
                try:
                    rec["file_problems"] = file_revalidation_problems(text, rng.choice(texts_seen + [base]))
                except (OSError, UnicodeError, ValueError):
                    pass
            texts_seen.append(text)
            out.append(rec)
        signal.alarm(0)
        return {"seed": seed, "texts": out}
    except CaseTimeout:
        return {"seed": seed, "timeout": True, "texts": out}
    finally:
        signal.alarm(0)


def check_inert(text):
    """for an invalid program no order can be started: start() is False, events are rejected"""
    from pfdl_scheduler.scheduler import Scheduler, Event

    buf = io.StringIO()
    try:
        with contextlib.redirect_stdout(buf):
            s = Scheduler(text, True, False)
            a = s.start()
            b = s.fire_event(Event("service_finished", {"service_uuid": "0"}))
            c = s.fire_event(Event("start_production_task", {}))
        if a is not False or b is not False or c is not False or s.running:
            return "start()=%r fire_event=%r start-event=%r running=%r" % (a, b, c, s.running)
        return None
    except Exception as ex:  # noqa: BLE001
        return "raised %s" % type(ex).__name__


# C09: accepted programs schedule without internal errors ----------------------------------------


def typed_value(rng, ty, structs, depth=0):
    ty = ty.strip()
    m = re.match(r"^(.*)\[(\d*)\]$", ty)
    if m:
        n = int(m.group(2)) if m.group(2) else rng.randint(1, 3)
        return [typed_value(rng, m.group(1), structs, depth + 1) for _ in range(n)]
    if ty == "number":
        # whole numbers (any of them may be a loop limit), a fifth of them delivered as floats (2.0), some negative
        n = rng.choice([0, 1, 1, 2, 2, 3, -1])
        return {"q": [n, 1, True]} if rng.random() < 0.2 else {"q": [n, 1]}
    if ty == "boolean":
        return rng.random() < 0.5
    if ty == "string":
        return rng.choice(["a", "b", "abc"])
    s = structs.get(ty)
    if s is None or depth > 6:
        return {}
    return {a: typed_value(rng, t, structs, depth + 1) for a, t in s["attrs"]}


def has_call_cycle(prog):
    """the harness's own look at the call graph (task calls, Parallel branches, parallel-loop bodies, at any depth)"""
    graph = {}
    for t in prog["tasks"]:
        callees = set()
        for st in progs.walk(t["body"]):
            if st["k"] == "call":
                callees.add(st["name"])
            elif st["k"] == "par":
                callees.update(c["name"] for c in st["calls"])
            elif st["k"] == "ploop":
                if st.get("call"):
                    callees.add(st["call"]["name"])
                for b in st.get("body") or []:
                    if b.get("k") == "call":
                        callees.add(b["name"])
        graph.setdefault(t["name"], callees)
    state = {}

    def dfs(n):
        if state.get(n) == 1:
            return True
        if state.get(n) == 2 or n not in graph:
            return False
        state[n] = 1
        r = any(dfs(m) for m in graph[n])
        state[n] = 2
        return r

    return any(dfs(n) for n in graph)


def with_big_stack(fn, limit=120000, stack_mb=1024):
    """run fn in a thread with a large C stack and a large Python recursion limit"""
    import sys
    import threading

    box = {}

    def target():
        old = sys.getrecursionlimit()
        sys.setrecursionlimit(limit)
        try:
            box["r"] = fn()
        except RecursionError:
            box["r"] = {"run_exc": "RecursionError"}
        except Exception as ex:  # noqa: BLE001
            box["r"] = {"run_exc": type(ex).__name__, "run_exc_msg": str(ex)[:200]}
        finally:
            sys.setrecursionlimit(old)

    old_size = threading.stack_size()
    try:
        threading.stack_size(stack_mb * 1024 * 1024)
        t = threading.Thread(target=target)
        t.start()
        t.join()
    finally:
        threading.stack_size(old_size)
    return box.get("r", {"run_exc": "RecursionError"})


def drive_accepted(prog, text, rseed):
    """one deterministic run of an accepted program: typed values, random completion order"""
    import impl

    rng = random.Random(rseed)
    rec = {}
    structs = {s["name"]: s for s in prog["structs"]}
    tm = {t["name"]: t for t in prog["tasks"]}
    nq = [0]

    def answers(name, ctx):
        nq[0] += 1
        t = tm.get(ctx.task.name) if ctx is not None else None
        ty = None
        if t:
            for x, xt in t.get("ins", []):
                if x == name:
                    ty = xt
            for st in progs.walk(t["body"]):
                calls = [st] if st["k"] in ("svc", "call") else st.get("calls", []) if st["k"] == "par" else [st["call"]] if st["k"] == "ploop" and st.get("call") else []
                for c in calls:
                    for x, xt in c.get("outs", []) or []:
                        if x == name:
                            ty = xt
        v = typed_value(rng, ty or "number", structs)
        if nq[0] > 60:
            v = falsify(v)
        return v

    imm_bits = [rng.random() < 0.3 for _ in range(5)]
    other_bits = [rng.random() < 0.5 for _ in range(4)] if rng.random() < 0.3 else [False]
    # completions from inside the notification only for the first services: an execution engine that answers every
    # announcement of a loop that never ends re-entrantly nests without bound by itself
    run = impl.Run(text, ids="test", answers=answers, imm=lambda k: k < 25 and imm_bits[k % 5],
                   imm_other=lambda k: k < 25 and other_bits[k % len(other_bits)])
    rec["ctor_exc"] = run.ctor_exc
    if run.s is None:
        return rec
    for k in ("ts", "ss", "sf", "tf"):
        run.register(k, 0)
    c = run.start()
    n = 0
    exc = c.get("exc")
    while run.pending and n < 80 and not exc:
        c = run.complete(rng.choice(run.pending))
        exc = c.get("exc")
        n += 1
    rec["run_exc"] = exc
    rec["run_exc_msg"] = c.get("exc_msg")
    if exc:
        # how long the failing call had been running without starting a service
        tail = 0
        for e in c["out"]:
            if e[0] == "INV" and e[1] == "ss":
                tail = 0
            else:
                tail += 1
        rec["service_free_tail"] = tail
    rec["finished"] = bool(run.calls and run.calls[-1].get("final_marking"))
    rec["inner_steps"] = sum(1 for c in run.calls for e in c["out"] if e[0] == "INV" and e[1] == "ss" and e[3] == "Inner_step")
    rec["pending"] = len(run.pending)
    rec["steps"] = n
    rec["queries"] = nq[0]
    return rec


def job_run_accepted(args):
    """drive an accepted program to the end with well-typed values and a random completion order"""
    import impl

    seed, size, mode = args
    rng = random.Random(seed)
    signal.signal(signal.SIGALRM, _alarm)
    _IN_WORKER[0] = True
    signal.alarm(120)
    try:
        prog = gen_wf(rng, size)
        label = "wf"
        if mode == "fault":
            cands = vgen.sample_faults(prog, rng, 3)
            if cands:
                prog, info = cands[rng.randrange(len(cands))]
                label = "fault:" + info["cls"]
        elif mode == "near":
            prog, label = near_valid(prog, rng, seed)
        elif mode == "near_cycle":
            # a call cycle that does not pass through the production task (C16: a verdict must come, see NoVerdict)
            prog, label = near_valid(prog, rng, rng.choice([80, 10, 70]))
        elif mode == "ploop_limit":
            # a parallel loop whose limit is read from a service result, first thing in the start task: the execution
            # engine delivers the number as it likes (0, negative, as a float)
            names = {x["name"] for x in prog["structs"]} | {x["name"] for x in prog["tasks"]}
            if "LimitHolder" not in names and "limitWorker" not in names:
                prog["structs"].append({"name": "LimitHolder", "attrs": [["count", "number"]]})
                prog["tasks"].append({"name": "limitWorker", "ins": [], "outs": [],
                                      "body": [{"k": "svc", "name": "Limit_work", "ins": [], "outs": []}]})
                if prog.get("order") is not None:
                    prog["order"] += [["struct", len(prog["structs"]) - 1], ["task", len(prog["tasks"]) - 1]]
                t = next(x for x in prog["tasks"] if x["name"] == vgen.START_TASK)
                t["body"][0:0] = [{"k": "svc", "name": "Limit_source", "ins": [], "outs": [["limitHolder", "LimitHolder"]]},
                                  {"k": "ploop", "var": "zq", "limit": ["limitHolder", "count"],
                                   "call": {"k": "call", "name": "limitWorker", "ins": [], "outs": []}}]
            label = "ploop_limit"
        elif mode == "nested_loops":
            # counting loops of one task nested in each other with the SAME counting variable (legal shadowing), the
            # inner one directly, inside a Condition or inside a While loop of the outer one's body
            # (first thing in the start task: executed exactly once per run, so the number of inner steps is known)
            t = next(x for x in prog["tasks"] if x["name"] == vgen.START_TASK)
            a, b = rng.randint(1, 3), rng.randint(1, 3)
            nested = [a, b]
            inner = {"k": "cloop", "var": "i", "limit": b, "body": [{"k": "svc", "name": "Inner_step", "ins": [], "outs": []}]}
            wrap = rng.choice(["direct", "direct", "cond"])
            if wrap == "cond":
                inner = {"k": "cond", "e": True, "passed": [inner], "failed": None}
            body = [inner]
            if rng.random() < 0.5:
                body.insert(0, {"k": "svc", "name": "Outer_step", "ins": [], "outs": []})
            if rng.random() < 0.5:
                body.append({"k": "svc", "name": "Outer_done", "ins": [], "outs": []})
            t["body"].insert(0, {"k": "cloop", "var": "i", "limit": a, "body": body})
            label = "nested_loops"
        elif mode == "shadow":
            # the same variable name with another struct type in a second task, used there with the operators that
            # fit the first task's type: must be rejected; if it is accepted it is driven like any accepted program
            prog = gen_shadow_program(rng, fault=rng.random() < 0.7)
            label = "shadow"
        text = vgen.print_program(prog, None)
        r = run_validator(text)
        rec = {"seed": seed, "label": label, "text": text, "valid": r["valid"], "exc": r["exc"], "prog": prog}
        if r["exc"] or not r["valid"]:
            signal.alarm(0)
            return rec
        rec["shapes"] = sorted(progs.ploop_shapes(prog))
        rec["call_cycle"] = has_call_cycle(prog)
        if rec["call_cycle"]:
            signal.alarm(0)
            return rec
        rseed = rng.getrandbits(32)
        if len(text) > 9000:
            # the scheduler deep-copies every struct literal (with its parse tree) at each start of a service: programs
            # with many large literals take minutes to construct and run; they are validated but not driven here
            rec["not_driven_large"] = True
            rec["valid"] = None
            signal.alarm(0)
            return rec
        out = drive_accepted(prog, text, rseed)
        if out.get("run_exc") == "RecursionError":
            if any(st["k"] == "wloop" and not list(vgen.expr_paths(st["e"])) for t in prog["tasks"] for st in progs.walk(t["body"])):
                # a While loop whose guard mentions no variable: if it is true the program never ends, and a body that
                # starts no service recurses without bound (finding K9: evaluation by recursion)
                out["k9_constant_guard"] = True
            else:
                # finding K9 is about the *depth* of the recursion (it grows with the number of service-free steps):
                # the same run with a 15 times larger recursion limit tells depth from an unbounded recursion
                out2 = with_big_stack(lambda: drive_accepted(prog, text, rseed), limit=45000, stack_mb=512)
                if out2.get("run_exc") != "RecursionError":
                    out2["k9_depth_only"] = True
                    out = out2
                elif out2.get("service_free_tail", 0) >= 300:
                    # still too deep with a 15 times larger limit, after hundreds of guard evaluations / notifications
                    # without a single service start: a loop that never ends and never waits (e.g. `... Or true`)
                    out["k9_constant_guard"] = True
        rec.update(out)
        if mode == "nested_loops":
            rec["nested"] = nested
        signal.alarm(0)
        return rec
    except CaseTimeout:
        return {"seed": seed, "timeout": True}
    finally:
        signal.alarm(0)


def job_deep_expression(args):
    """C09, directed: a guard wrapped in N pairs of parentheses.  Whatever depth validation accepts, construction, start
    and the evaluation of the guard must work at the SAME recursion limit (validation needs several frames per level,
    the generator's label and the scheduler's evaluation one: an acceptance bound above the run bound is a crash)"""
    import contextlib as _cl
    import io as _io

    seed, = args
    rng = random.Random(seed)
    signal.signal(signal.SIGALRM, _alarm)
    signal.alarm(120)
    try:
        from pfdl_scheduler.model.struct import Struct
        from pfdl_scheduler.scheduler import Event, Scheduler

        n = rng.choice([20, 120, 200, 260, 400, 700, 1000, 1300, 1700, 2200])
        kind = rng.choice(["cond", "while"])
        inner = rng.choice(["r.n < 3", "r.n + 1 > 0", "!(r.n == 2)"])
        e = "(" * n + inner + ")" * n
        head = "Struct R\n    n: number\nEnd\n\nTask productionTask\n    Svc\n        Out\n            r: R\n"
        if kind == "cond":
            text = head + "    Condition\n        %s\n    Passed\n        Svc2\nEnd\n" % e
        else:
            text = head + "    Loop While %s\n        Svc2\n            Out\n                r: R\nEnd\n" % e
        rec = {"seed": seed, "n": n, "kind": kind, "text": text, "accepted": False, "problem": None}
        buf = _io.StringIO()
        stage = "construction"
        import sys as _sys
        old_limit = _sys.getrecursionlimit()
        _sys.setrecursionlimit(1000)   # the interpreter's default: what an application runs with (the workers use more)
        try:
            with _cl.redirect_stdout(buf):
                s = Scheduler(text, generate_test_ids=True, draw_petri_net=False)
                svcs = []
                s.register_callback_service_started(lambda a: svcs.append(a))
                r = Struct()
                r.name = "R"
                r.attributes = {"n": 5}
                s.register_variable_access_function(lambda name, ctx: r)
                stage = "start"
                ok = s.start()
                rec["accepted"] = bool(ok)
                if ok and svcs:
                    stage = "fire_event"
                    s.fire_event(Event("service_finished", {"service_uuid": svcs[0].uuid}))
        except RecursionError:
            rec["problem"] = "a guard in %d pairs of parentheses (%s) is accepted but %s raises RecursionError" % (n, kind, stage)
        except Exception as ex:  # noqa: BLE001
            rec["problem"] = "a guard in %d pairs of parentheses (%s): %s raises %s" % (n, kind, stage, type(ex).__name__)
        finally:
            _sys.setrecursionlimit(old_limit)
        return rec
    except CaseTimeout:
        return {"seed": seed, "timeout": True}
    finally:
        signal.alarm(0)


def falsify(v):
    if isinstance(v, dict):
        if "q" in v:
            return {"q": [0, 1]}
        return {k: falsify(x) for k, x in v.items()}
    if isinstance(v, list):
        return [falsify(x) for x in v]
    if isinstance(v, bool):
        return False
    return v


def near_valid(prog, rng, which=None):
    """near-valid variants named by the property: recursion, zero limits, undeclared limit variables"""
    p = copy.deepcopy(prog)
    kinds = ["self_recursion", "mutual_recursion", "zero_limit", "undeclared_limit", "string_condition",
             "recursion_in_parallel_loop", "recursion_in_parallel", "mutual_recursion_in_parallel_loop",
             "mutual_recursion_below_start"]
    kind = rng.choice(kinds) if which is None else kinds[(which // 10) % len(kinds)]
    tasks = p["tasks"]
    if kind == "self_recursion":
        t = rng.choice(tasks)
        t["body"].append({"k": "call", "name": t["name"], "ins": [], "outs": []})
    elif kind == "mutual_recursion" and len(tasks) >= 2:
        a, b = rng.sample(tasks, 2)
        a["body"].append({"k": "call", "name": b["name"], "ins": [], "outs": []})
        b["body"].append({"k": "call", "name": a["name"], "ins": [], "outs": []})
    elif kind == "mutual_recursion_below_start":
        # a cycle of two (new, parameterless) tasks that lies below the production task, which is not on the cycle
        na, nb = "cycleTaskA", "cycleTaskB"
        pos = rng.choice(["first", "last"])
        ta = {"name": na, "ins": [], "outs": [], "body": [{"k": "svc", "name": "StepA", "ins": [], "outs": []},
                                                           {"k": "call", "name": nb, "ins": [], "outs": []}]}
        tb = {"name": nb, "ins": [], "outs": [], "body": [{"k": "call", "name": na, "ins": [], "outs": []}] if pos == "first" else
              [{"k": "svc", "name": "StepB", "ins": [], "outs": []}, {"k": "call", "name": na, "ins": [], "outs": []}]}
        tasks.extend([ta, tb])
        top = next((x for x in tasks if x["name"] == "productionTask"), None)
        for caller in ([tasks[0]] + ([top] if top is not None and top is not tasks[0] else [])):
            # reached from the task that is declared first, and from the production task
            caller["body"].append({"k": "call", "name": na, "ins": [], "outs": []})
    elif kind == "recursion_in_parallel_loop":
        t = rng.choice([x for x in tasks if not x.get("ins")] or tasks)
        t["body"].append({"k": "ploop", "var": "zq", "limit": 1, "call": {"k": "call", "name": t["name"], "ins": [], "outs": []}})
    elif kind == "mutual_recursion_in_parallel_loop" and len(tasks) >= 2:
        a, b = rng.sample([x for x in tasks if not x.get("ins")] or tasks, 2) if len([x for x in tasks if not x.get("ins")]) >= 2 else rng.sample(tasks, 2)
        if not a.get("ins") and not b.get("ins"):
            a["body"].append({"k": "ploop", "var": "zq", "limit": rng.randint(1, 2), "call": {"k": "call", "name": b["name"], "ins": [], "outs": []}})
            b["body"].insert(rng.randint(0, len(b["body"])), {"k": "call", "name": a["name"], "ins": [], "outs": []})
    elif kind == "recursion_in_parallel":
        t = rng.choice([x for x in tasks if not x.get("ins")] or tasks)
        t["body"].append({"k": "par", "calls": [{"k": "call", "name": t["name"], "ins": [], "outs": []}]})
    elif kind == "zero_limit":
        for t in tasks:
            for st in progs.walk(t["body"]):
                if st["k"] in ("cloop", "ploop") and isinstance(st["limit"], int):
                    st["limit"] = 0
    elif kind == "undeclared_limit":
        for t in tasks:
            for st in progs.walk(t["body"]):
                if st["k"] in ("cloop", "ploop"):
                    st["limit"] = ["zz", "n"]
                    return p, kind
    elif kind == "string_condition":
        for t in tasks:
            for st in progs.walk(t["body"]):
                if st["k"] == "cond":
                    st["e"] = '"abc"'
                    return p, kind
    return p, kind


# ---------------------------------------------------------------------------------------------


def replay_obj(prop, rule, msg, text, extra=None):
    o = {"property": prop, "family": "valid", "rule": rule, "message": msg, "text": text,
         "how": "./check %s quick --replay <this file> validates the text with /repo's parse_string and re-evaluates the rule" % prop}
    if extra:
        o.update(extra)
    return o


def run(ctx):
    prop, tier, seed = ctx["prop"], ctx["tier"], ctx["seed"]
    base = tempfile.mkdtemp(prefix="pfdl_verif_")
    res = {"violations": [], "known": [], "unexplained": [], "notes": [], "coverage": {}, "assumptions": []}
    try:
        pool = mp.Pool(min(16, os.cpu_count() or 4), initializer=_init_worker, initargs=(base,))
        try:
            _run(ctx, pool, res)
        finally:
            pool.terminate()
            pool.join()
    finally:
        shutil.rmtree(base, ignore_errors=True)
    return res


def add_violation(res, seen, prop, rule, msg, text, extra=None):
    if rule in seen:
        seen[rule] += 1
        return
    seen[rule] = 1
    res["violations"].append({"rule": rule, "msg": msg, "replay_obj": replay_obj(prop, rule, msg, text, extra)})


def known_rules(prop):
    out = {}
    for kf in findings.open_for(prop):
        try:
            obj = findings.load_replay(kf)
        except Exception:  # noqa: BLE001
            continue
        if obj.get("family") == "valid":
            out[kf["id"]] = (kf, obj)
    return out


def _run(ctx, pool, res):
    prop, tier, seed = ctx["prop"], ctx["tier"], ctx["seed"]
    quick = tier == "quick"
    seen = {}
    cov = {}
    # replay ------------------------------------------------------------------------------------
    if ctx.get("replay"):
        with open(ctx["replay"]) as f:
            obj = json.load(f)
        v = pool.apply(job_replay, (prop, obj))
        for rule, msg in v:
            add_violation(res, seen, prop, rule, msg, obj.get("text", ""))
        res["coverage"] = {"evaluations": 1, "distinct_nontrivial": 0, "programs": 1, "samples": [obj.get("text", "")[:300]]}
        return
    # known findings ------------------------------------------------------------------------------
    known = known_rules(prop)
    known_texts = set()
    for fid, (kf, obj) in known.items():
        v = pool.apply(job_replay, (prop, obj))
        rules = [r for r, m in v]
        known_texts.add(obj.get("text"))
        if kf["rule"] in rules:
            res["known"].append("id=%s %s" % (kf["id"], kf["text"]))
            for r, m in v:
                if r not in obj.get("rules_allowed", [kf["rule"]]):
                    add_violation(res, seen, prop, r, "finding %s now fails differently: %s" % (fid, m), obj.get("text", ""))
        elif v:
            add_violation(res, seen, prop, v[0][0], "finding %s now fails differently: %s" % (fid, v[0][1]), obj.get("text", ""))
        else:
            res["notes"].append("finding %s no longer reproduces on this tree" % fid)
    size = 3 if quick else 4
    n_wf = {"C11": 220, "C16": 60, "C10": 40, "C19": 40, "C09": 0}[prop] * (1 if quick else 10)
    n_fault = {"C10": 200, "C19": 200, "C16": 60, "C11": 30, "C09": 0}[prop] * (1 if quick else 10)
    n_text = {"C16": 220, "C10": 0, "C11": 0, "C19": 0, "C09": 0}[prop] * (1 if quick else 10)
    n_run = {"C09": 320, "C16": 40}.get(prop, 0) * (1 if quick else 10)
    wf_jobs = [(seed * 7919 + i, size) for i in range(n_wf)]
    fault_jobs = [(seed * 104729 + i, size, 4) for i in range(n_fault)] + [(seed * 611953 + i, size, -1) for i in range(max(40, n_fault // 4) if n_fault else 0)]
    text_jobs = [(seed * 1299709 + i, size, 6) for i in range(n_text)]
    run_jobs = [(seed * 15485863 + i, size, "near_cycle" if prop == "C16" else ["wf", "nested_loops", "fault", "near", "wf", "shadow", "fault", "shadow", "wf", "ploop_limit"][i % 10]) for i in range(n_run)]
    wf_res = pool.map(job_wf, wf_jobs, chunksize=2) if wf_jobs else []
    fault_res = pool.map(job_faults, fault_jobs, chunksize=2) if fault_jobs else []
    text_res = pool.map(job_text, text_jobs, chunksize=2) if text_jobs else []
    run_res = pool.map(job_run_accepted, run_jobs, chunksize=2) if run_jobs else []
    timeouts = sum(1 for r in wf_res + fault_res + text_res + run_res if r.get("timeout"))

    model_reqs = []  # (tag, prog, impl_res, text)
    n_eval = 0
    distinct = set()
    nontrivial = set()
    hist_cls = {}
    hist_kinds = {}
    sample = None
    # well-formed ---------------------------------------------------------------------------------
    for r in wf_res:
        verdicts = []
        for v in r["variants"]:
            n_eval += 1
            rv = v["res"]
            key = hashlib.sha256(v["text"].encode()).hexdigest()
            distinct.add(key)
            if sample is None:
                sample = {"text": v["text"][:1500], "valid": rv["valid"]}
            if rv["exc"]:
                add_violation(res, seen, "C16", "raises", "validation of a well-formed program raised %s (%s)" % (rv["exc"], v["what"]), v["text"])
                continue
            verdicts.append(rv["valid"])
            if rv["valid"] is not True or rv["out"] != "":
                add_violation(res, seen, "C11", "wf_rejected" if rv["valid"] is not True else "wf_output",
                              "a well-formed program is %s (%s): %s" % ("rejected" if rv["valid"] is not True else "accepted but prints output", v["what"], rv["out"][:300]), v["text"])
            if (rv["valid"] is True) != (rv["out"] == ""):
                add_violation(res, seen, "C16", "verdict_vs_output", "verdict %r but output %r" % (rv["valid"], rv["out"][:200]), v["text"])
            model_reqs.append(("wf", v["prog"], rv, v["text"]))
            if len(v["text"]) > 400:
                nontrivial.add(key)
        if len(set(verdicts)) > 1:
            add_violation(res, seen, "C11", "verdict_depends_on_layout_or_order", "verdicts %r over layouts/permutation of one program" % verdicts, r["variants"][0]["text"])
        if r.get("ext") and r["variants"]:
            ex = r["ext"]
            if ex["exc"] is None and ex["valid"] != r["variants"][0]["res"]["valid"]:
                add_violation(res, seen, "C19", "formats_disagree", "console and extension format give different verdicts", r["variants"][0]["text"])
    # directed family: same variable name / path text with different types in different tasks ------------
    shadow = pool.map(job_shadow, [(seed * 31 + i, prop in ("C10", "C19") and i % 2 == 1) for i in range(24 if quick else 240)]) \
        if prop in ("C10", "C11", "C16") else []
    # directed: programs without any task (only structs, only comments, nothing): the production task is missing
    if prop in ("C10", "C16", "C19"):
        for text in ["", "\n", "# only a comment\n", "Struct S\n    a: number\nEnd\n", "\n\nStruct S\n    a: number\nEnd\n\nStruct T\n    s: S\nEnd\n"]:
            rv = pool.apply(run_validator, (text,))
            n_eval += 1
            distinct.add(hashlib.sha256(text.encode()).hexdigest())
            if rv["exc"]:
                add_violation(res, seen, "C16", "raises", "validation raised %s on a text without tasks" % rv["exc"], text)
                add_violation(res, seen, "C10", "fault_raises_no_production_task", "a text without any task: validation raised %s instead of reporting" % rv["exc"], text)
            elif rv["valid"] is not False or not rv["errs"]:
                add_violation(res, seen, "C10", "fault_accepted_no_production_task", "a text without any task (no productionTask) is not reported: valid=%r messages=%d" % (rv["valid"], len(rv["errs"])), text)
            elif not any(e["line"] == 1 for e in rv["errs"]):
                add_violation(res, seen, "C19", "line_outside_construct_no_production_task", "the whole-file message of a text without tasks carries lines %r, not line 1" % [e["line"] for e in rv["errs"]], text)
    # directed: texts that happen to name something in the file system (the Scheduler takes a path or a program text)
    if prop == "C16":
        for text in ["/", ".", "..", "./", "/tmp", " ", "\t", "\x00", "~", "temp"]:
            inert = pool.apply(check_inert, (text,))
            n_eval += 1
            distinct.add(hashlib.sha256(text.encode()).hexdigest())
            if inert:
                add_violation(res, seen, "C16", "invalid_not_inert", "invalid program %r but %s" % (text, inert), text)
    nonstruct = pool.map(job_nonstruct, [(seed * 37 + i,) for i in range(40 if quick else 400)]) if prop in ("C10", "C16", "C19") else []
    for r in nonstruct:
        n_eval += 1
        rv = r["res"]
        distinct.add(hashlib.sha256(r["text"].encode()).hexdigest())
        if rv["exc"]:
            add_violation(res, seen, "C16", "raises", "validation raised %s on an attribute access whose root variable is no struct" % rv["exc"], r["text"])
            add_violation(res, seen, "C10", "fault_raises_nonstruct_access", "attribute access on a variable of primitive / array type: validation raised %s instead of reporting" % rv["exc"], r["text"])
        elif rv["valid"] is not False or not rv["errs"]:
            add_violation(res, seen, "C10", "fault_accepted_nonstruct_access", "attribute access on a variable of primitive / array type is not reported", r["text"])
        else:
            model_reqs.append(("nonstruct", r["prog"], rv, r["text"]))
    for r in shadow:
        n_eval += 1
        rv = r["res"]
        distinct.add(hashlib.sha256(r["text"].encode()).hexdigest())
        if rv["exc"]:
            add_violation(res, seen, "C16", "raises", "validation raised %s on a shadowing program" % rv["exc"], r["text"])
        elif not r["fault"] and (rv["valid"] is not True or rv["out"]):
            add_violation(res, seen, "C11", "wf_rejected", "a well-formed program (same variable name for different struct types in two tasks) is rejected: %s" % rv["out"][:300], r["text"])
        elif r["fault"] and rv["valid"] is not False:
            add_violation(res, seen, "C10", "fault_accepted_expr_ill_typed_operand_shadowed", "ill-typed operand accepted in a task whose variable shares its name with a differently typed variable of another task", r["text"], {"cls": "expr_ill_typed_operand"})
        if not rv["exc"]:
            model_reqs.append(("shadow", r["prog"], rv, r["text"]))
    # faults ----------------------------------------------------------------------------------------
    for r in fault_res:
        for f in r["faults"]:
            n_eval += 1
            rv, rx = f["res"], f["ext"]
            key = hashlib.sha256(f["text"].encode()).hexdigest()
            distinct.add(key)
            nontrivial.add(key)
            h = hist_cls.setdefault(f["cls"], {"n": 0, "rejected": 0, "accepted": 0, "raised": 0, "line_in_span": 0})
            h["n"] += 1
            if rv["exc"]:
                h["raised"] += 1
                add_violation(res, seen, "C16", "raises", "validation raised %s on a program with fault %s (%s)" % (rv["exc"], f["cls"], f.get("where")), f["text"], {"cls": f["cls"]})
                add_violation(res, seen, "C10", "fault_raises_" + f["cls"], "fault %s (%s): validation raised %s instead of reporting" % (f["cls"], f.get("where"), rv["exc"]), f["text"], {"cls": f["cls"]})
                continue
            for e in rv["errs"]:
                hist_kinds[e["kind"]] = hist_kinds.get(e["kind"], 0) + 1
            if rv["valid"] is not False or not rv["errs"]:
                h["accepted"] += 1
                add_violation(res, seen, "C10", "fault_accepted_" + f["cls"], "fault %s (%s) is not reported: valid=%r messages=%d" % (f["cls"], f.get("where"), rv["valid"], len(rv["errs"])), f["text"], {"cls": f["cls"]})
            else:
                h["rejected"] += 1
                # C19: a line inside the construct (line 1 for whole-file), none outside the file
                lines = [e["line"] for e in rv["errs"]]
                span = f["span"]
                ok = (1 in lines) if f["whole_file"] else bool(span and span[0] is not None and any(span[0] <= l <= span[1] for l in lines))
                if ok:
                    h["line_in_span"] += 1
                else:
                    add_violation(res, seen, "C19", "line_outside_construct_" + f["cls"],
                                  "fault %s (%s): reported lines %r, construct spans lines %r" % (f["cls"], f.get("where"), lines, "1 (whole file)" if f["whole_file"] else span), f["text"], {"cls": f["cls"]})
                if any(l < 1 or l > f["nlines"] for l in lines):
                    add_violation(res, seen, "C19", "line_outside_file", "reported lines %r, file has %d lines" % (lines, f["nlines"]), f["text"])
                rf = f.get("file")
                if rf is not None and rf["exc"] is None:
                    fl_ = sorted(e["line"] for e in rf["errs"])
                    if fl_ != sorted(lines):
                        add_violation(res, seen, "C19", "file_vs_text_lines", "the text reports lines %r, the same text validated from a file (a path that held another program before) reports %r"
                                      % (sorted(lines), fl_), f["text"], {"cls": f["cls"]})
                if rx["exc"] is None:
                    xl = sorted(e["line"] for e in rx["errs"])
                    if xl != sorted(lines) or rx["leftover"]:
                        add_violation(res, seen, "C19", "formats_disagree", "console format reports lines %r, extension format %r %s" % (sorted(lines), xl, rx["leftover"][:80]), f["text"])
            if (rv["valid"] is True) != (rv["out"] == ""):
                add_violation(res, seen, "C16", "verdict_vs_output", "verdict %r but output %r" % (rv["valid"], rv["out"][:200]), f["text"])
            if not any(e["kind"] == "syntax_or_other" for e in rv["errs"]) and f["cls"] != "literal_not_json":
                # (a literal that is no JSON is a fault of the text, not of the AST the model is given)
                model_reqs.append(("fault:" + f["cls"], f["prog"], rv, f["text"]))
    # texts -------------------------------------------------------------------------------------------
    text_kinds = {}
    for r in text_res:
        for t in r["texts"]:
            n_eval += 1
            rv = t["res"]
            key = hashlib.sha256(t["text"].encode()).hexdigest()
            distinct.add(key)
            tk = text_kinds.setdefault(t["kind"].split("+")[0], {"n": 0, "valid": 0, "invalid": 0, "raised": 0})
            tk["n"] += 1
            if rv["exc"]:
                tk["raised"] += 1
                if t["text"] not in known_texts:
                    add_violation(res, seen, "C16", "raises_" + rv["exc"], "validation raised %s (%s) on a %s mutation" % (rv["exc"], rv.get("exc_msg", "")[:80], t["kind"]), t["text"], {"mutation": t["kind"]})
                continue
            nontrivial.add(key)
            tk["valid" if rv["valid"] else "invalid"] += 1
            if rv["valid"] not in (True, False):
                add_violation(res, seen, "C16", "not_a_verdict", "parse_string returned %r" % (rv["valid"],), t["text"])
            if (rv["valid"] is True) != (rv["out"] == ""):
                add_violation(res, seen, "C16", "verdict_vs_output", "verdict %r but output %r" % (rv["valid"], rv["out"][:200]), t["text"])
            if t.get("inert"):
                add_violation(res, seen, "C16", "invalid_not_inert", "invalid program but %s" % t["inert"], t["text"])
            if t.get("file_problems"):
                add_violation(res, seen, "C16", "file_revalidation", t["file_problems"][0], t["text"])
    # deep expressions: accepted => runs at the same recursion limit --------------------------------------
    if prop == "C09":
        nd = na = 0
        for r in pool.map(job_deep_expression, [(seed * 31 + i,) for i in range(40 if quick else 200)], chunksize=2):
            if r.get("timeout"):
                continue
            nd += 1
            n_eval += 1
            na += 1 if r.get("accepted") else 0
            if r.get("problem"):
                add_violation(res, seen, "C09", "deep_expression", r["problem"], r["text"], {"drive": True, "answer_n": 5})
        res["notes"].append("guards in 20..2200 pairs of parentheses: %d programs, %d accepted and driven" % (nd, na))
    # accepted programs run ------------------------------------------------------------------------------
    run_hist = {}
    for r in run_res:
        if r.get("timeout"):
            continue
        n_eval += 1
        lab = r["label"].split(":")[0] + ("/not_driven" if r.get("not_driven_large") else "/accepted" if r.get("valid") else "/rejected")
        run_hist[lab] = run_hist.get(lab, 0) + 1
        key = hashlib.sha256(r["text"].encode()).hexdigest()
        distinct.add(key)
        if r.get("exc"):
            add_violation(res, seen, "C16", "raises", "validation raised %s (%s)" % (r["exc"], r["label"]), r["text"])
            continue
        if r.get("not_driven_large"):
            run_hist["not_driven_large_text"] = run_hist.get("not_driven_large_text", 0) + 1
            continue
        if not r.get("valid"):
            continue
        nontrivial.add(key)
        if r.get("shapes"):
            run_hist["known_ploop_shape"] = run_hist.get("known_ploop_shape", 0) + 1
        if r.get("nested") and not r.get("run_exc") and not r.get("k9_depth_only") and \
                (r["inner_steps"] > r["nested"][0] * r["nested"][1] or (r.get("finished") and r["inner_steps"] != r["nested"][0] * r["nested"][1])):
            a_, b_ = r["nested"]
            add_violation(res, seen, "C09", "nested_loops_iterations", "accepted program: a counting loop to %d around a counting loop to %d with the same counting variable started the inner service %d times (%s), expected %d: the order %s"
                          % (a_, b_, r["inner_steps"], "run finished" if r.get("finished") else "run cut off", a_ * b_, "is not executed as written" if r.get("finished") else "does not complete"), r["text"], {"label": r["label"], "nested": r["nested"]})
        if r.get("call_cycle"):
            add_violation(res, seen, "C09", "accepted_recursive_program", "a program whose tasks call each other recursively (%s) is accepted: the scheduler cannot unfold it" % r["label"], r["text"], {"label": r["label"], "prog": r.get("prog")})
        elif r.get("ctor_exc"):
            add_violation(res, seen, "C09", "construction_raises_" + r["ctor_exc"], "accepted program (%s): Scheduler construction raised %s" % (r["label"], r["ctor_exc"]), r["text"], {"label": r["label"]})
        elif r.get("run_exc") == "ZeroDivisionError" and " / " in r["text"]:
            run_hist["known_K11_division_by_zero"] = run_hist.get("known_K11_division_by_zero", 0) + 1
        elif r.get("k9_constant_guard") and r.get("run_exc") == "RecursionError":
            run_hist["known_K9_constant_guard_loop"] = run_hist.get("known_K9_constant_guard_loop", 0) + 1
        elif r.get("k9_depth_only") and not r.get("run_exc"):
            # RecursionError under the normal limit, completes under a 40 times larger one: depth only (finding K9)
            run_hist["known_K9_recursion_depth"] = run_hist.get("known_K9_recursion_depth", 0) + 1
            if not r.get("finished") and r.get("pending") == 0 and not r.get("shapes"):
                add_violation(res, seen, "C09", "does_not_complete", "accepted program (%s): nothing outstanding but the order did not complete" % r["label"], r["text"], {"label": r["label"]})
        elif r.get("run_exc"):
            if not r.get("shapes"):
                add_violation(res, seen, "C09", "run_raises_" + r["run_exc"], "accepted program (%s): %s escaped start()/fire_event(): %s" % (r["label"], r["run_exc"], r.get("run_exc_msg")), r["text"], {"label": r["label"]})
        elif not r.get("finished") and r.get("pending") == 0 and not r.get("shapes"):
            add_violation(res, seen, "C09", "does_not_complete", "accepted program (%s): nothing outstanding but the order did not complete" % r["label"], r["text"], {"label": r["label"]})
    # C09 also over the scheduling family (valid programs, all completion orders incl. cross re-entrant ones):
    # any exception escaping the scheduler is a violation of soundness
    if prop == "C09":
        import sched_family

        sjobs = [(seed * 2750159 + i, {"hist": False, "gen": {}, "ids": "test", "mutate": None, "depth": 3, "max_ops": 40})
                 for i in range(240 if quick else 2400)]
        for r in pool.map(sched_family.job_gen_run, sjobs, chunksize=4):
            if not r.get("valid"):
                continue
            n_eval += 1
            key = hashlib.sha256((r["case"]["text"] + json.dumps(r["case"].get("ops"))).encode()).hexdigest()
            distinct.add(key)
            nontrivial.add(key)
            run_hist["sched_family/accepted"] = run_hist.get("sched_family/accepted", 0) + 1
            deep = any(c.get("exc") == "RecursionError" and len(c["out"]) > 150 for c in r["calls"])
            for v in r["viol"]:
                if deep:
                    continue
                if v["prop"] == "C09":
                    add_violation(res, seen, "C09", "run_raises_in_schedule", v["msg"], r["case"]["text"],
                                  {"sched_case": sched_family.strip_case(r["case"])})
                elif v["prop"] == "C01" and v["rule"] in ("stall", "completion_without_effect"):
                    add_violation(res, seen, "C09", "does_not_complete_in_schedule", v["msg"], r["case"]["text"],
                                  {"sched_case": sched_family.strip_case(r["case"])})
    # C09: programs of any shape (also the shapes of the known findings about parallel loops, on which the monitors are
    # not consulted) against the net layer of the model: an exception that the model does not predict, a run that ends
    # elsewhere, breaks the correspondence
    net_any = []
    if prop == "C09" and ctx["model_ok"]:
        import net_tie
        import sched_family

        ajobs = [(seed * 6700417 + i, {"gen": {}, "max_ops": 40}) for i in range(80 if quick else 800)]
        ars = [r for r in pool.map(sched_family.job_gen_run_any, ajobs, chunksize=2)
               if r.get("valid") and net_tie.applicable(r["case"]) and not any(c.get("exc") == "RecursionError" for c in r["calls"])]
        aresps = sched_family.run_model([net_tie.net_request(r["case"]) for r in ars])
        for r, resp in zip(ars, aresps):
            if any(c.get("stuck") == "outOfFuel" for c in resp.get("calls", [])):
                continue
            d = net_tie.compare_calls(r["calls"], None, None, resp, proj=sched_family.proj_full)
            if d:
                net_any.append((r, d))
        run_hist["net_layer/any_shape_cases"] = len(ars)
    # model correspondence -----------------------------------------------------------------------------------
    disagreements = []
    front_stats = {"compared": 0, "skipped": 0}
    if ctx["model_ok"] and model_reqs:
        resps = run_model([{"k": "check", "prog": source_order(p)} for _, p, _, _ in model_reqs])
        for (tag, p, rv, text), resp in zip(model_reqs, resps):
            if "error" in resp:
                disagreements.append((tag, text, "model error: " + resp["error"]))
                continue
            nodes = all_nodes(p)
            if resp.get("raised"):
                disagreements.append((tag, text, "model predicts an exception, implementation returned valid=%r" % rv["valid"]))
                continue
            pi, pm = impl_projection(rv, nodes), model_projection(resp)
            if prop in ("C10", "C11", "C16", "C09"):
                # verdict and message kinds
                a = sorted(k for k, l in pi)
                b = sorted(k for k, l in pm)
                if a != b:
                    disagreements.append((tag, text, "message kinds: implementation %r / model %r" % (a, b)))
            else:
                if pi != pm:
                    disagreements.append((tag, text, "messages (kind, construct line): implementation %r / model %r" % (pi, pm)))
        # the whole front end from the real token stream: lexer + denter tokens of the same text -> grammar model
        # (Syntax.lean) -> validation model; must give what the validation model gives on the generating AST
        toks = pool.map(_front_tokens, [text for _, _, _, text in model_reqs], chunksize=8)
        idx = [i for i, t in enumerate(toks) if t is not None]
        front_stats["skipped"] = len(toks) - len(idx)
        fresps = run_model([{"k": "vtext", "toks": toks[i]} for i in idx])
        for i, fr in zip(idx, fresps):
            tag, p, rv, text = model_reqs[i]
            resp = resps[i]
            if "error" in resp:
                continue
            front_stats["compared"] += 1
            if "error" in fr:
                disagreements.append((tag, text, "front-end model error: " + fr["error"][:200]))
            elif not fr.get("parsed"):
                disagreements.append((tag, text, "the grammar model does not read the token stream of a text the parser accepted"))
            elif bool(fr.get("raised")) != bool(resp.get("raised")) or model_projection(fr) != model_projection(resp):
                disagreements.append((tag, text, "validation model on the parsed token stream %r / on the generating AST %r" % (model_projection(fr)[:6], model_projection(resp)[:6])))
    elif not ctx["model_ok"]:
        res["unexplained"].append({"what": "the Lean model does not build: " + "; ".join(ctx["build"].get("build_errors", [])[:3])})
    res["violations"] = [v for v in res["violations"] if v["replay_obj"]["property"] == prop]
    for r, d in net_any[:3]:
        disagreements.append(("net-layer/any-shape", r["case"]["text"], "net layer of the scheduler model, history %s: %s"
                              % (json.dumps([o for o in r["case"].get("ops", []) if o["op"] != "reg"])[:300], d)))
    if disagreements and not res["violations"]:
        tag, text, d = disagreements[0]
        res["unexplained"].append({"what": "correspondence broken (validation model, %s projection) on %d of %d programs: [%s] %s"
                                           % (prop, len(disagreements), len(model_reqs), tag, d), "case": {"text": text}, "detail": d})
    # only violations of this property count --------------------------------------------------------------------
    res["violations"] = [v for v in res["violations"] if v["replay_obj"]["property"] == prop]
    for v in res["violations"]:
        v["replay_obj"]["occurrences"] = seen.get(v["rule"])
    res["coverage"] = {
        "programs": len(distinct),
        "evaluations": n_eval,
        "distinct_nontrivial": len(nontrivial),
        "rule": "programs from the typed well-formed generator tools/vgen.py (layout variants, permutations of definitions), single-fault mutations of them (catalogue of %d classes at random applicable positions), text mutations; distinct by text hash; non-trivial: carries a fault / is a text mutation that did not raise / is a well-formed program of more than 400 characters / was accepted and driven by the scheduler" % len(vgen.FAULT_CLASSES),
        "traces_validated_against_impl": len(model_reqs) if ctx["model_ok"] else 0,
        "disagreements_checked": len(disagreements),
        "front_end_from_tokens": front_stats,
        "fault_classes": hist_cls,
        "message_kinds": hist_kinds,
        "text_mutations": text_kinds,
        "accepted_runs": run_hist,
        "timeouts": timeouts,
        "known_findings_reproduced": len(res["known"]),
        "samples": [sample] if sample else [{"note": "see fault_classes / text_mutations"}],
    }
    if prop != "C11" and not sample:
        for r in fault_res[:1]:
            for f in r["faults"][:1]:
                res["coverage"]["samples"] = [{"cls": f["cls"], "where": f.get("where"), "text": f["text"][:1200], "messages": f["res"]["errs"][:3]}]
        for r in text_res[:1]:
            for t in r["texts"][:1]:
                res["coverage"]["samples"] = [{"mutation": t["kind"], "text": t["text"][:800], "valid": t["res"]["valid"]}]
        for r in run_res[:1]:
            if not r.get("timeout"):
                res["coverage"]["samples"] = [{"label": r["label"], "text": r["text"][:1200], "valid": r.get("valid"), "finished": r.get("finished")}]


def job_replay(prop, obj):
    """re-evaluate the rule of a replay file on the current tree; returns [(rule, msg)]"""
    text = obj.get("text", "")
    rule = obj.get("rule", "")
    out = []
    if obj.get("sched_case"):
        import sched_family

        rr = sched_family.job_run(obj["sched_case"])
        for v in rr["viol"]:
            if v["prop"] == "C09":
                out.append(("run_raises_in_schedule", v["msg"]))
            elif v["prop"] == "C01" and v["rule"] in ("stall", "completion_without_effect"):
                out.append(("does_not_complete_in_schedule", v["msg"]))
        return out
    r = run_validator(text)
    if r["exc"]:
        out.append(("raises_" + r["exc"] if prop == "C16" else "raises", "validation raised %s: %s" % (r["exc"], r.get("exc_msg", ""))))
        if rule.startswith("fault_"):
            out.append(("fault_raises_" + obj.get("cls", ""), "validation raised %s" % r["exc"]))
        return out
    if (r["valid"] is True) != (r["out"] == ""):
        out.append(("verdict_vs_output", "verdict %r output %r" % (r["valid"], r["out"][:100])))
    if rule.startswith("wf_") and (r["valid"] is not True or r["out"]):
        out.append((rule, "still rejected / output: %s" % r["out"][:200]))
    if rule.startswith("fault_accepted_") and r["valid"] is True:
        out.append((rule, "still accepted"))
    if rule.startswith("line_outside_construct") and obj.get("span"):
        lines = [e["line"] for e in r["errs"]]
        span = obj["span"]
        if not any(span[0] <= l <= span[1] for l in lines):
            out.append((rule, "reported lines %r construct %r" % (lines, span)))
    if prop == "C09" and r["valid"] and rule == "accepted_recursive_program" and obj.get("prog") and has_call_cycle(obj["prog"]):
        out.append((rule, "still accepted"))
        return out
    if prop == "C09" and r["valid"]:
        import impl

        const = obj.get("answer")
        run = impl.Run(text, ids="test", answers=lambda n, c: const)
        if run.ctor_exc:
            out.append(("construction_raises_" + run.ctor_exc, "Scheduler construction raised %s" % run.ctor_exc))
        elif run.s is not None and obj.get("drive"):
            for k in ("ts", "ss", "sf", "tf"):
                run.register(k, 0)
            c = run.start()
            n = 0
            while run.pending and n < 40 and not c.get("exc"):
                c = run.complete(run.pending[0])
                n += 1
            if c.get("exc"):
                out.append(("run_raises_" + c["exc"], "raised %s" % c["exc"]))
            elif run.calls and not run.calls[-1].get("final_marking") and not run.pending:
                out.append(("does_not_complete", "nothing outstanding but the order did not complete"))
    return out
