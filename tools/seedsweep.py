"""Regression sweep: every recorded seeded change must still be detected by the check of the property it breaks.

  python3 tools/seedsweep.py [seed ids...]

For each /verif/seeded/<id>: git apply patch.diff in /repo, ./check <property> quick, revert /repo.
Writes seeded/SWEEP.json (id -> exit code, first VIOLATION line). /repo is left clean."""
import json
import os
import subprocess
import sys

VERIF = os.path.abspath(os.path.join(os.path.dirname(os.path.abspath(__file__)), ".."))


def sh(cmd, cwd=None, timeout=3600):
    p = subprocess.run(cmd, shell=True, cwd=cwd, capture_output=True, text=True, timeout=timeout)
    return p.returncode, p.stdout + p.stderr


def main():
    ids = sys.argv[1:] or sorted(d for d in os.listdir(os.path.join(VERIF, "seeded")) if os.path.isdir(os.path.join(VERIF, "seeded", d)))
    rc, out = sh("git status --porcelain", cwd="/repo")
    if out.strip():
        print("/repo is not clean:", out)
        return 2
    res = {}
    sweep_file = os.path.join(VERIF, "seeded", "SWEEP.json")
    if sys.argv[1:] and os.path.exists(sweep_file):
        with open(sweep_file) as f:
            res = json.load(f)
    missed = []
    for sid in ids:
        d = os.path.join(VERIF, "seeded", sid)
        with open(os.path.join(d, "meta.json")) as f:
            meta = json.load(f)
        prop = meta["breaks_property"]
        if meta.get("obsolete"):
            res[sid] = {"property": prop, "obsolete": meta["obsolete"]}
            print(sid, "obsolete on this base")
            continue
        rc, out = sh("git apply %s" % os.path.join(d, "patch.diff"), cwd="/repo")
        if rc != 0:
            res[sid] = {"error": "patch does not apply: " + out[:200]}
            print(sid, "PATCH DOES NOT APPLY")
            continue
        try:
            rc, out = sh("./check %s quick" % prop, cwd=VERIF)
        finally:
            sh("git checkout -- . && git clean -fdq -- pfdl_scheduler", cwd="/repo")
        viol = [l for l in out.splitlines() if l.startswith("VIOLATION")]
        res[sid] = {"property": prop, "exit": rc, "violation": viol[:1], "detail": [l.strip() for l in out.splitlines() if l.startswith("  ")][:1]}
        print(sid, prop, "exit", rc, (viol or ["-"])[0][:110])
        if rc != 1:
            if meta.get("not_detected"):
                print("   (known gap: %s)" % meta["not_detected"][:120])
                res[sid]["known_gap"] = meta["not_detected"]
            else:
                missed.append(sid)
    with open(os.path.join(VERIF, "seeded", "SWEEP.json"), "w") as f:
        json.dump(res, f, indent=1, sort_keys=True)
    print("missed:", missed)
    rc, out = sh("git status --porcelain", cwd="/repo")
    if out.strip():
        print("WARNING /repo not clean:", out)
    return 1 if missed else 0


if __name__ == "__main__":
    sys.exit(main())
