"""Self-test of tools/vgen.py against the real parser/validator of /repo.

usage:  cd <scratch dir> && /venv/bin/python /verif/tools/vgen_selftest.py N [seed] [--faults K] [--show M]

For N random well-formed programs:
 (0) an independent reference check of the documented rules (wf_errors, on the AST) must find nothing;
 (1) every program is printed in the default and 3 random layouts and once with permuted definitions; the
     real validator must answer valid with empty output for all of them, and all texts must parse to the model
     the AST describes (checked whenever validation returns a process);  rejected programs are shown under
     "WF REJECTED";
 (2) K sampled single-fault mutations per program: the text must still be syntactically valid, the reference
     check must see a fault, and the validator's answer is tallied per fault class
     (invalid / ACCEPTED / RAISED, reported line inside the span of the smallest enclosing construct).
Exit status 1 only for mistakes of the generator itself (reference check, syntax, model mismatch), never for
what the validator does.
"""
import collections
import contextlib
import io
import os
import random
import re
import sys

sys.path.insert(0, os.path.dirname(os.path.abspath(__file__)))
sys.path.insert(0, "/repo")

import vgen  # noqa: E402
from vgen import PRIMS, START_TASK, parse_type, struct_table, task_table, task_vars, iter_nodes, path_type  # noqa: E402

from antlr4.CommonTokenStream import CommonTokenStream  # noqa: E402
from antlr4.InputStream import InputStream  # noqa: E402
from pfdl_scheduler.parser.PFDLLexer import PFDLLexer  # noqa: E402
from pfdl_scheduler.parser.PFDLParser import PFDLParser  # noqa: E402
from pfdl_scheduler.utils.parsing_utils import parse_string  # noqa: E402
from pfdl_scheduler.validation.error_handler import ErrorHandler  # noqa: E402
from pfdl_scheduler.validation.syntax_error_listener import SyntaxErrorListener  # noqa: E402

LINE_RE = re.compile(r"in line (-?\d+):(-?\d+)")


# ---------------------------------------------------------------------------------------------------
# the implementation under test


def validate(text):
    """('valid'|'invalid'|'raised', stdout, process or exception)"""
    buf = io.StringIO()
    try:
        with contextlib.redirect_stdout(buf):
            valid, process = parse_string(text)
    except BaseException as exc:  # noqa: BLE001 - the point is to see everything that escapes
        if isinstance(exc, KeyboardInterrupt) or type(exc).__name__ == "CaseTimeout":
            raise
        return "raised", buf.getvalue(), exc
    return ("valid" if valid else "invalid"), buf.getvalue(), process


def syntax_ok(text):
    """lexer + parser only, with the project's own error listener"""
    buf = io.StringIO()
    with contextlib.redirect_stdout(buf):
        lexer = PFDLLexer(InputStream(text))
        lexer.removeErrorListeners()
        stream = CommonTokenStream(lexer)
        parser = PFDLParser(stream)
        parser.removeErrorListeners()
        handler = ErrorHandler("", False)
        listener = SyntaxErrorListener(stream, handler)
        lexer.addErrorListener(listener)
        parser.addErrorListener(listener)
        parser.program()
    return not handler.has_error(), buf.getvalue()


def reported_lines(out):
    return [int(m.group(1)) for m in LINE_RE.finditer(out)]


def messages(out):
    return [l for l in out.splitlines() if l and not l.startswith("File ")]


# ---------------------------------------------------------------------------------------------------
# model <-> AST


def canon(x):
    """order-insensitive for definitions, type-strict for literals (True != 1, 7 != 7.0)"""
    if isinstance(x, bool):
        return ("bool", x)
    if isinstance(x, (int, float)):
        return (type(x).__name__, x)
    if isinstance(x, (list, tuple)):
        return [canon(v) for v in x]
    if isinstance(x, dict):
        return {k: canon(v) for k, v in x.items()}
    return x


def ast_canon(prog):
    p = vgen.strip_lines(prog)

    def stmt(s):
        k = s["k"]
        if k in ("svc", "call"):
            return {"k": k, "name": s["name"], "ins": list(s.get("ins") or []), "outs": [list(o) for o in s.get("outs") or []]}
        if k == "par":
            return {"k": k, "calls": [stmt(c) for c in s["calls"]]}
        if k == "cond":
            return {"k": k, "e": s["e"], "passed": [stmt(x) for x in s["passed"]], "failed": [stmt(x) for x in s.get("failed") or []]}
        if k == "wloop":
            return {"k": k, "e": s["e"], "body": [stmt(x) for x in s["body"]]}
        if k == "cloop":
            return {"k": k, "var": s["var"], "limit": s["limit"], "body": [stmt(x) for x in s["body"]]}
        return {"k": k, "var": s["var"], "limit": s["limit"], "body": [stmt(x) for x in vgen.ploop_stmts(s)]}

    return canon({
        "structs": {s["name"]: [list(a) for a in s["attrs"]] for s in p["structs"]},
        "tasks": {t["name"]: {"ins": [list(a) for a in t.get("ins") or []], "outs": list(t.get("outs") or []),
                              "body": [stmt(s) for s in t["body"]]} for t in p["tasks"]},
    })


def model_canon(process):
    def value(v):
        cls = type(v).__name__
        if cls == "Struct":
            return {k: value(x) for k, x in v.attributes.items()}
        if cls == "Array":
            return [value(x) for x in v.values]
        return v

    def param(p):
        if type(p).__name__ == "Struct":
            return {"lit": p.name, "json": value(p)}
        return list(p) if isinstance(p, list) else p

    def stmt(s):
        cls = type(s).__name__
        if cls in ("Service", "TaskCall"):
            return {"k": "svc" if cls == "Service" else "call", "name": s.name,
                    "ins": [param(p) for p in s.input_parameters],
                    "outs": [[x, str(t)] for x, t in s.output_parameters.items()]}
        if cls == "Parallel":
            return {"k": "par", "calls": [stmt(c) for c in s.task_calls]}
        if cls == "Condition":
            return {"k": "cond", "e": s.expression, "passed": [stmt(x) for x in s.passed_stmts],
                    "failed": [stmt(x) for x in s.failed_stmts]}
        if cls == "WhileLoop":
            return {"k": "wloop", "e": s.expression, "body": [stmt(x) for x in s.statements]}
        if cls == "CountingLoop":
            return {"k": "ploop" if s.parallel else "cloop", "var": s.counting_variable, "limit": s.limit,
                    "body": [stmt(x) for x in s.statements]}
        raise ValueError(cls)

    return canon({
        "structs": {s.name: [[a, str(t)] for a, t in s.attributes.items()] for s in process.structs.values()},
        "tasks": {t.name: {"ins": [[x, str(ty)] for x, ty in t.input_parameters.items()], "outs": list(t.output_parameters),
                           "body": [stmt(s) for s in t.statements]} for t in process.tasks.values()},
    })


def first_difference(a, b, where="model"):
    if type(a) is not type(b):
        return "%s: %r vs %r" % (where, a, b)
    if isinstance(a, dict):
        for k in sorted(set(a) | set(b), key=str):
            if k not in a or k not in b:
                return "%s: key %r only on one side" % (where, k)
            d = first_difference(a[k], b[k], "%s.%s" % (where, k))
            if d:
                return d
        return None
    if isinstance(a, list):
        if len(a) != len(b):
            return "%s: lengths %d vs %d" % (where, len(a), len(b))
        for n, (x, y) in enumerate(zip(a, b)):
            d = first_difference(x, y, "%s[%d]" % (where, n))
            if d:
                return d
        return None
    return None if a == b else "%s: %r vs %r" % (where, a, b)


# ---------------------------------------------------------------------------------------------------
# reference check of the documented rules on the AST (independent of the validator and of the generator)


def literal_errors(value, ty, S, where):
    elem, arr = parse_type(ty)
    if arr is not None:
        if not isinstance(value, list):
            return ["%s: array expected" % where]
        errs = []
        if arr >= 0 and len(value) != arr:
            errs.append("%s: array length %d instead of %d" % (where, len(value), arr))
        for n, x in enumerate(value):
            errs += literal_errors(x, elem, S, "%s[%d]" % (where, n))
        return errs
    if elem == "number":
        ok = isinstance(value, (int, float)) and not isinstance(value, bool)
    elif elem == "string":
        ok = isinstance(value, str)
    elif elem == "boolean":
        ok = isinstance(value, bool)
    elif elem in S:
        if not isinstance(value, dict):
            return ["%s: struct %s expected" % (where, elem)]
        decl = dict(S[elem])
        errs = ["%s: missing attribute %s" % (where, a) for a in decl if a not in value]
        errs += ["%s: unknown attribute %s" % (where, a) for a in value if a not in decl]
        for a, x in value.items():
            if a in decl:
                errs += literal_errors(x, decl[a], S, where + "." + a)
        return errs
    else:
        return ["%s: unknown type %s" % (where, elem)]
    return [] if ok else ["%s: %s expected" % (where, elem)]


def expr_errors(e, env, S, errs, allow_elem=True):
    """type of e ('number'|'boolean'|'string'|None), appending problems to errs"""
    if isinstance(e, bool):
        return "boolean"
    if isinstance(e, (int, float)):
        return "number"
    if isinstance(e, str):
        return "string"
    if e is None:
        errs.append("empty expression")
        return None
    if isinstance(e, list):
        t = path_type(e, env, S)
        if t not in PRIMS:
            errs.append("operand %s does not resolve to a primitive (%s)" % (vgen.path_text(e), t))
            return None
        return t
    if "unOp" in e:
        if expr_errors(e["value"], env, S, errs) not in ("boolean", None):
            errs.append("operand of ! is not boolean")
        return "boolean"
    if e.get("left") == "(" and e.get("right") == ")":
        return expr_errors(e["binOp"], env, S, errs)
    lt, rt = expr_errors(e["left"], env, S, errs), expr_errors(e["right"], env, S, errs)
    op = e["binOp"]
    if lt is None or rt is None:
        return "number" if op in "+-*/" else "boolean"
    if op in ("+", "-", "*", "/"):
        if (lt, rt) != ("number", "number"):
            errs.append("arithmetic on %s, %s" % (lt, rt))
        return "number"
    if op in ("<", ">", "<=", ">="):
        if lt != rt or lt == "boolean":
            errs.append("comparison %s of %s and %s" % (op, lt, rt))
    elif op in ("==", "!="):
        if lt != rt:
            errs.append("%s of %s and %s" % (op, lt, rt))
    elif op in ("And", "Or"):
        if (lt, rt) != ("boolean", "boolean"):
            errs.append("%s on %s, %s" % (op, lt, rt))
    else:
        errs.append("unknown operator %r" % (op,))
    return "boolean"


def wf_errors(prog):
    errs = []
    S, T = struct_table(prog), task_table(prog)

    def dups(names, what):
        c = collections.Counter(names)
        errs.extend("duplicate %s %s" % (what, n) for n, k in c.items() if k > 1)

    def type_ok(ty):
        elem, _ = parse_type(ty)
        return elem in PRIMS or elem in S

    dups([s["name"] for s in prog["structs"]], "struct")
    dups([t["name"] for t in prog["tasks"]], "task")
    for s in prog["structs"]:
        dups([a for a, _ in s["attrs"]], "attribute in %s" % s["name"])
        errs.extend("unknown type %s of %s.%s" % (ty, s["name"], a) for a, ty in s["attrs"] if not type_ok(ty))
    if START_TASK not in T:
        errs.append("no productionTask")

    def param_type(p, env):
        if isinstance(p, str):
            return env.get(p)
        if isinstance(p, list):
            return path_type(p, env, S)
        return p["lit"]

    for t in prog["tasks"]:
        env = task_vars(t)
        w = "task " + t["name"]
        dups([x for x, _ in t.get("ins", [])], "In parameter in " + w)
        errs.extend("%s: unknown type %s of parameter %s" % (w, ty, x) for x, ty in t.get("ins", []) if not type_ok(ty))
        errs.extend("%s: undeclared output %s" % (w, x) for x in t.get("outs", []) if x not in env)
        defs = collections.defaultdict(set)
        for x, ty in t.get("ins", []):
            defs[x].add(ty)
        for node, ref, role, lv in iter_nodes(t["body"], []):
            k = node["k"]
            if k in ("svc", "call"):
                dups([x for x, _ in node.get("outs", [])], "Out definition in %s of %s" % (node["name"], w))
                for x, ty in node.get("outs", []):
                    defs[x].add(ty)
                    if not type_ok(ty):
                        errs.append("%s: unknown type %s of Out %s" % (w, ty, x))
                for p in node.get("ins", []):
                    if isinstance(p, dict):
                        if p["lit"] not in S:
                            errs.append("%s: unknown struct %s" % (w, p["lit"]))
                        else:
                            errs += literal_errors(p["json"], p["lit"], S, "%s: literal %s" % (w, p["lit"]))
                    elif param_type(p, env) is None:
                        errs.append("%s: parameter %s does not resolve" % (w, p if isinstance(p, str) else vgen.path_text(p)))
            if k == "call":
                callee = T.get(node["name"])
                if callee is None:
                    errs.append("%s: unknown task %s" % (w, node["name"]))
                else:
                    cins, couts, cenv = callee.get("ins", []), callee.get("outs", []), task_vars(callee)
                    if len(cins) != len(node.get("ins", [])):
                        errs.append("%s: call of %s with %d inputs instead of %d" % (w, node["name"], len(node.get("ins", [])), len(cins)))
                    else:
                        for (x, ety), p in zip(cins, node.get("ins", [])):
                            got = param_type(p, env)
                            if got is not None and got != ety:
                                errs.append("%s: call of %s: %s given for %s: %s" % (w, node["name"], got, x, ety))
                    if len(couts) != len(node.get("outs", [])):
                        errs.append("%s: call of %s with %d outputs instead of %d" % (w, node["name"], len(node.get("outs", [])), len(couts)))
                    else:
                        for x, (y, ty) in zip(couts, node.get("outs", [])):
                            if x in cenv and cenv[x] != ty:
                                errs.append("%s: call of %s: Out %s: %s but %s returns %s" % (w, node["name"], y, ty, x, cenv[x]))
            if k in ("cond", "wloop"):
                sub = []
                ty = expr_errors(node["e"], env, S, sub)
                if ty not in ("boolean", None):
                    sub.append("expression is %s, not boolean" % ty)
                errs.extend("%s: %s: %s" % (w, vgen.expr_text(node["e"]) if node["e"] is not None else "", m) for m in sub)
            if k in ("cloop", "ploop"):
                lim = node["limit"]
                if isinstance(lim, list):
                    ty = path_type(lim, env, S)
                    if ty != "number":
                        errs.append("%s: loop limit %s is %s" % (w, vgen.path_text(lim), ty))
                elif isinstance(lim, bool) or not isinstance(lim, int) or lim < 0:
                    errs.append("%s: loop limit %r" % (w, lim))
            if k == "ploop":
                body = vgen.ploop_stmts(node)
                if len(body) != 1 or body[0]["k"] != "call":
                    errs.append("%s: parallel loop body is not exactly one task call" % w)
        errs.extend("%s: variable %s defined with types %s" % (w, x, sorted(tys)) for x, tys in defs.items() if len(tys) > 1)
    edges = vgen.call_edges(prog)
    for t in T:
        if t in vgen.reachable(edges, t):
            errs.append("task %s is recursive" % t)
    return errs


# ---------------------------------------------------------------------------------------------------


def coverage(prog, cov):
    """what the generated family exercised (to see that the generator does not silently narrow down)"""
    S = struct_table(prog)
    for s in prog["structs"]:
        for _, ty in s["attrs"]:
            elem, arr = parse_type(ty)
            kind = "prim" if elem in PRIMS else "struct"
            cov["attr:%s%s" % (kind, "" if arr is None else ("[]" if arr < 0 else "[n]"))] += 1
    for t in prog["tasks"]:
        for _, ty in t.get("ins", []):
            elem, arr = parse_type(ty)
            cov["task_in:%s%s" % ("prim" if elem in PRIMS else "struct", "" if arr is None else "[..]")] += 1
        if t.get("outs"):
            cov["task_out"] += 1

        def blocks(stmts, depth):
            for n, s in enumerate(stmts):
                pos = "only" if len(stmts) == 1 else "first" if n == 0 else "last" if n == len(stmts) - 1 else "middle"
                cov["stmt:%s:%s" % (s["k"], pos)] += 1
                cov["depth:%d" % depth] += 1
                if s["k"] == "cond":
                    blocks(s["passed"], depth + 1)
                    blocks(s.get("failed") or [], depth + 1)
                elif s["k"] in ("cloop", "wloop"):
                    blocks(s["body"], depth + 1)

        blocks(t["body"], 0)
        for node, _, role, lv in iter_nodes(t["body"], []):
            if node["k"] in ("svc", "call"):
                kinds = []
                for p in node.get("ins", []):
                    if isinstance(p, str):
                        kinds.append("var")
                    elif isinstance(p, list):
                        kinds.append("path")
                        if any(seg.startswith("[") and not seg[1:-1].isdigit() for seg in p):
                            cov["param:path[loopvar]"] += 1
                        if any(seg[1:-1].isdigit() for seg in p if seg.startswith("[")):
                            cov["param:path[literal]"] += 1
                        if len([seg for seg in p if not seg.startswith("[")]) > 2:
                            cov["param:path through nested struct"] += 1
                    else:
                        kinds.append("lit")
                        txt = repr(p["json"])
                        if any(isinstance(v, dict) for v in p["json"].values()):
                            cov["literal:nested struct"] += 1
                        if "[{" in txt:
                            cov["literal:array of structs"] += 1
                for kd in kinds:
                    cov["param:%s (%s)" % (kd, node["k"])] += 1
                if "lit" in kinds and len(set(kinds)) > 1 and kinds.index("lit") < len(kinds) - 1:
                    cov["param:literal before variable/path"] += 1
                if node["k"] == "call" and node.get("outs"):
                    cov["call with outputs"] += 1
            if node["k"] in ("cloop", "ploop"):
                cov["limit:%s" % ("path" if isinstance(node["limit"], list) else "literal")] += 1
            if "e" in node:
                txt = vgen.expr_text(node["e"])
                for tok in ("And", "Or", "!", "==", "!=", "<", ">", "+", "-", "*", "/", "(", '"'):
                    if tok in txt:
                        cov["expr:" + tok] += 1


def main(argv):
    args = [a for a in argv if not a.startswith("--")]
    n_progs = int(args[0]) if args else 20
    seed = int(args[1]) if len(args) > 1 else 1
    k_faults = int(argv[argv.index("--faults") + 1]) if "--faults" in argv else 12
    show = int(argv[argv.index("--show") + 1]) if "--show" in argv else 2

    gen_bugs = []           # mistakes of vgen itself
    wf_rejected = collections.OrderedDict()   # signature -> [count, example]
    wf_total = wf_bad = skipped_fault_runs = 0
    verdict_mismatch = 0
    table = {cls: collections.Counter() for cls in vgen.FAULT_CLASSES}
    raised_types = {cls: collections.Counter() for cls in vgen.FAULT_CLASSES}
    accepted_examples, raised_examples, miss_examples = {}, {}, {}
    cov = collections.Counter()
    fault_positions = collections.Counter()

    for n in range(n_progs):
        rng = random.Random(seed * 100003 + n)
        size = rng.choice([1, 2, 3, 3])
        prog = vgen.gen_wf_program(rng, size)
        coverage(prog, cov)
        ref = wf_errors(prog)
        if ref:
            gen_bugs.append("program %d: reference check: %s" % (n, ref[:3]))
        expected = ast_canon(prog)
        texts = [("default", vgen.print_program(prog))]
        for _ in range(3):
            lay = vgen.random_layout(rng)
            texts.append((lay, vgen.print_program(prog, lay)))
        lay = vgen.random_layout(rng)
        texts.append(("permuted " + str(lay), vgen.print_program(vgen.permute_definitions(prog, rng), lay)))
        verdicts = []
        for lay, text in texts:
            ok, out = syntax_ok(text)
            if not ok:
                gen_bugs.append("program %d layout %s: SYNTAX ERROR %s" % (n, lay, out.strip()[:200]))
            verdict, out, res = validate(text)
            verdicts.append((verdict, tuple(sorted(messages(out)))))
            wf_total += 1
            if verdict in ("valid", "invalid") and res is not None:
                diff = first_difference(expected, model_canon(res))
                if diff:
                    gen_bugs.append("program %d layout %s: parsed model differs from the AST: %s" % (n, lay, diff))
            if verdict != "valid" or out:
                wf_bad += 1
                sig = (verdict, type(res).__name__ if verdict == "raised" else "", tuple(sorted(set(re.sub(r"'[^']*'", "'..'", m) for m in messages(out)))))
                entry = wf_rejected.setdefault(sig, [0, None, set()])
                entry[0] += 1
                entry[2].add(n)
                if entry[1] is None:
                    entry[1] = (n, text if lay == "default" else vgen.print_program(prog), out, repr(res) if verdict == "raised" else "", prog.get("features"))
        if len(set(verdicts)) > 1:
            verdict_mismatch += 1
            print("VERDICT DIFFERS between layouts/permutation for program %d: %s" % (n, verdicts))

        # (2) faults
        faults = vgen.enumerate_faults(prog)
        for f in faults:
            fault_positions[f["cls"]] += 1
        if any(v != ("valid", ()) for v in verdicts):
            # the validator already complains about the unmutated program: its messages would be taken for
            # the detection of the injected fault
            skipped_fault_runs += 1
            continue
        for mutated, info in vgen.sample_faults(prog, rng, k_faults, faults):
            cls = info["cls"]
            row = table[cls]
            lay = vgen.random_layout(rng) if rng.random() < 0.5 else None
            text = vgen.print_program(mutated, lay)
            row["n"] += 1
            ok, out = syntax_ok(text)
            if not ok:
                row["syntax_broken"] += 1
                gen_bugs.append("program %d fault %s at %s: mutated text has a SYNTAX ERROR: %s" % (n, cls, info["where"], out.strip()[:160]))
                continue
            if not wf_errors(mutated):
                gen_bugs.append("program %d fault %s at %s: reference check sees no fault" % (n, cls, info["where"]))
            spans = vgen.target_spans(mutated, info)
            if not info["whole_file"] and vgen.resolve_target(mutated, info) is None:
                gen_bugs.append("program %d fault %s: target does not resolve" % (n, cls))
            verdict, out, res = validate(text)
            example = (n, info["where"], text, out, spans)
            if verdict == "raised":
                row["raised"] += 1
                raised_types[cls][type(res).__name__] += 1
                raised_examples.setdefault((cls, type(res).__name__), example + (repr(res),))
            elif verdict == "valid":
                row["accepted"] += 1
                accepted_examples.setdefault(cls, example)
            else:
                row["invalid"] += 1
                if not messages(out):
                    row["invalid_without_message"] += 1
                lines = reported_lines(out)
                if any(a <= ln <= b for ln in lines for a, b in spans):
                    row["line_in_span"] += 1
                else:
                    row["line_outside"] += 1
                    miss_examples.setdefault(cls, example)
                if any(a <= ln <= b for ln in lines for a, b in vgen.enclosing_def_spans(mutated, info)):
                    row["line_in_def"] += 1
                nlines = len(text.splitlines())
                if any(ln < 1 or ln > nlines for ln in lines):
                    row["line_outside_file"] += 1

    # ---- report -----------------------------------------------------------------------------------
    print("=" * 110)
    print("well-formed programs: %d programs, %d texts validated, %d not accepted cleanly, %d with differing verdicts"
          % (n_progs, wf_total, wf_bad, verdict_mismatch))
    print("coverage of the generated family (occurrences):")
    keys = sorted(cov)
    for i in range(0, len(keys), 4):
        print("   " + "   ".join("%-34s %6d" % (k, cov[k]) for k in keys[i:i + 4]))
    if wf_rejected:
        print()
        print("WF REJECTED  (well-formed by docs/grammar and by the reference check, not accepted by the validator)")
        for m, (sig, (count, ex, progs)) in enumerate(wf_rejected.items()):
            print("-" * 110)
            print("[%d] %s %s  x%d texts in %d programs   messages: %s" % (m + 1, sig[0], sig[1], count, len(progs), list(sig[2])))
            if m < show and ex is not None:
                pn, text, out, exc, feats = ex
                print("example: program %d (features %s); validator output:" % (pn, feats))
                print("   " + out.strip().replace("\n", "\n   ") + ("   " + exc if exc else ""))
                lines = text.splitlines()
                marks = set(reported_lines(out))
                lo = max(1, min(marks) - 12) if marks else 1
                hi = min(len(lines), max(marks) + 6) if marks else min(len(lines), 60)
                print("   program text (lines %d..%d of %d, reported lines marked):" % (lo, hi, len(lines)))
                for ln in range(lo, hi + 1):
                    print("   %s%4d| %s" % (">" if ln in marks else " ", ln, lines[ln - 1]))
    print()
    print("FAULT TABLE (sampled mutations; 'pos/prog' = applicable positions per program on average; %d programs the"
          " validator\n does not accept unmutated are left out)" % skipped_fault_runs)
    hdr = "%-36s %5s %8s %8s %8s %7s %8s %7s %8s  %s" % ("class", "n", "invalid", "ACCEPTED", "RAISED", "in-span", "outside", "in-def", "pos/prog", "exceptions")
    print(hdr)
    print("-" * len(hdr))
    tot = collections.Counter()
    for cls in vgen.FAULT_CLASSES:
        r = table[cls]
        tot.update(r)
        print("%-36s %5d %8d %8d %8d %7d %8d %7d %8.1f  %s" % (
            cls, r["n"], r["invalid"], r["accepted"], r["raised"], r["line_in_span"], r["line_outside"], r["line_in_def"],
            fault_positions[cls] / max(1, n_progs), dict(raised_types[cls]) or ""))
    print("-" * len(hdr))
    print("%-36s %5d %8d %8d %8d %7d %8d %7d" % ("total", tot["n"], tot["invalid"], tot["accepted"], tot["raised"], tot["line_in_span"], tot["line_outside"], tot["line_in_def"]))
    print("(in-span: a reported line lies in the smallest statement/definition containing the fault - line 1 for whole-file")
    print(" faults; outside: none does; in-def: a reported line lies in the top-level definition around the fault)")
    if tot["invalid_without_message"] or tot["line_outside_file"]:
        print("invalid without any message: %d   reported line outside the file: %d" % (tot["invalid_without_message"], tot["line_outside_file"]))
    never = [cls for cls in vgen.FAULT_CLASSES if not table[cls]["n"]]
    if never:
        print("classes never sampled: %s" % never)

    def show_example(title, ex, extra=""):
        pn, where, text, out, spans = ex[:5]
        print("  %s: program %d at %s; target span(s) %s %s" % (title, pn, where, spans, extra))
        if out.strip():
            print("     validator: " + out.strip().replace("\n", " | ")[:300])
        lines = text.splitlines()
        a, b = spans[0]
        for ln in range(max(1, a - 1), min(len(lines), b, a + 14) + 1):
            print("     %4d| %s" % (ln, lines[ln - 1]))

    if accepted_examples:
        print()
        print("ACCEPTED faulty programs, one example per class:")
        for cls, ex in accepted_examples.items():
            show_example(cls, ex)
    if raised_examples:
        print()
        print("RAISED, one example per class and exception:")
        for (cls, et), ex in raised_examples.items():
            show_example("%s %s" % (cls, et), ex, ex[5][:160])
    if miss_examples:
        print()
        print("reported lines all outside the target span, one example per class:")
        for cls, ex in miss_examples.items():
            show_example(cls, ex)
    print()
    if gen_bugs:
        print("GENERATOR PROBLEMS (%d):" % len(gen_bugs))
        for b in gen_bugs[:40]:
            print("  " + b)
        return 1
    print("generator self-checks passed (reference check, syntax of all texts, parsed model == AST in all layouts)")
    return 0


if __name__ == "__main__":
    sys.exit(main(sys.argv[1:]))
