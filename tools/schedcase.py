"""Scheduling cases: generation, execution on the implementation, request for the Lean model,
canonical traces.  A *case* is a JSON object:

  {"prog": AST, "text": str, "ids": "test"|"uuid", "draw": bool, "as_file": bool, "mutate": bool,
   "imm": [bool,...] (cyclic, by announcement index), "answers": [value JSON,...], "terminator": value,
   "ops": [op,...]}

ops:  {"op":"reg","kind":k,"fn":j} {"op":"attach","o":k} {"op":"detach","o":k} {"op":"start"}
      {"op":"finish","n":k} (k-th announced service) {"op":"junk","junk":...}
"""
import copy
import json
import os
import random
import re
import shutil
import tempfile

import progs

TERMINATOR = {"n": {"q": [0, 1]}, "b": False, "parts": [], "m": {"n": {"q": [0, 1]}, "b": False}, "x": {"q": [0, 1]}}
TERMINATOR_P = {"n": {"q": [0, 1]}, "b": False}
QUERY_BUDGET = 40


def gen_num(rng):
    r = rng.random()
    if r < 0.8:
        return {"q": [rng.choice([0, 1, 1, 2, 2, 3]), 1]}
    if r < 0.9:
        return {"q": [rng.choice([-1, -2]), 1]}
    return {"q": [rng.choice([1, 3, 5]), 2]}


def gen_int03(rng):
    # loop limits: mostly integral; a fraction is a well-typed number too (int() of it for a Parallel Loop, `c < n`
    # for a Counting Loop), 1/2 being the case below 1
    if rng.random() < 0.1:
        return {"q": [rng.choice([1, 1, 3, 5]), 2]}
    return {"q": [rng.choice([0, 1, 1, 2, 2, 3]), 1]}


def gen_P(rng):
    return {"n": gen_num(rng), "b": rng.random() < 0.5}


def gen_R(rng):
    # r.n and r.m.n are used as loop limits
    return {"n": gen_int03(rng), "b": rng.random() < 0.5, "parts": [gen_P(rng) for _ in range(rng.randint(0, 3))],
            "m": {"n": gen_int03(rng), "b": rng.random() < 0.5}, "x": gen_x(rng)}


def gen_x(rng):
    """free numeric attribute: the literals of the expression generator (so that == / != hit), floats, negatives, large"""
    return rng.choice([{"q": [0, 1]}, {"q": [1, 1]}, {"q": [9, 4]}, {"q": [-1, 2]}, {"q": [-9, 4]}, {"q": [1000, 1]},
                       {"q": [2, 1, True]}, {"q": [3, 2]}, {"q": [255, 1]}, {"q": [-1, 1]},
                       {"q": [4000000001, 1]}, {"q": [4000000002, 1]}])


class Answers:
    """value script of the execution engine: a store per (task instance, variable) that changes over time"""

    def __init__(self, rng):
        self.rng = rng
        self.store = {}
        self.count = 0

    def __call__(self, name, ctx):
        self.count += 1
        if self.count > QUERY_BUDGET:
            return TERMINATOR if name != "p" else TERMINATOR_P
        key = (name, ctx.uuid if ctx is not None else None)
        if key not in self.store or self.rng.random() < 0.5:
            self.store[key] = gen_P(self.rng) if name == "p" else gen_R(self.rng)
        return copy.deepcopy(self.store[key])


def gen_case(rng, depth=3, hist=False, ids=None, max_ops=40, **genkw):
    prog = progs.gen_program(rng, depth=depth, **genkw)
    text = progs.print_program(prog, indent=rng.choice([4, 4, 2, 3]))
    mode = rng.random()
    if mode < 0.35:
        imm = [False]
    elif mode < 0.5:
        imm = [True]
    else:
        imm = [rng.random() < 0.4 for _ in range(rng.randint(2, 12))]
    imm_other = None
    if rng.random() < 0.12:
        # cross re-entrancy (monitors only: the structural model has no global tree inside a nested call)
        imm_other = [rng.random() < 0.5 for _ in range(rng.randint(1, 6))]
        if not any(imm_other):
            imm_other[0] = True
    case = {
        "witness": (rng.choice([True, "live"]) if rng.random() < 0.5 else False) if hist else False,
        "witness_late": rng.random() < 0.5,
        "reuse_event": rng.choice(["replace", "mutate"]) if rng.random() < 0.15 else None,
        "imm_other": imm_other,
        "prog": prog,
        "text": text,
        "ids": ids or "test",
        "draw": False,
        "as_file": False,
        "mutate": False,
        "imm": imm,
        "seed": rng.getrandbits(32),
        "pick": rng.choice(["fifo", "lifo", "random", "random"]),
        "hist": hist,
        "max_ops": max_ops,
    }
    if hist and rng.random() < 0.3:
        # the application names its order itself (blanks, separators: an id is any string)
        case["sched_uuid"] = rng.choice(["order-17", "plant A/order 17", "line:3 #7", "a b", "Auftrag/2024/07"])
    return case


DEFAULT_PRELUDE = [
    {"op": "reg", "kind": "ts", "fn": 0},
    {"op": "reg", "kind": "ss", "fn": 0},
    {"op": "reg", "kind": "sf", "fn": 0},
    {"op": "reg", "kind": "tf", "fn": 0},
]


def gen_prelude(rng, hist, imm_any=False, shared=False):
    """registration / attach history before start()"""
    if not hist:
        return list(DEFAULT_PRELUDE) + [{"op": "attach", "o": 0}]
    ops = []
    # the EE's service-started listener (fn 0) is always registered; others in random order with repeats
    regs = []
    for k in ("ts", "ss", "sf", "tf"):
        fns = [0] + [j for j in (1, 2) if rng.random() < 0.5]
        if shared and rng.random() < 0.6:
            fns.append(9)  # the function that is also registered at the other scheduler of this process
        rng.shuffle(fns)
        for j in fns:
            regs.append({"op": "reg", "kind": k, "fn": j})
            if rng.random() < 0.2:
                regs.append({"op": "reg", "kind": k, "fn": j})  # repeated registration
    rng.shuffle(regs)
    if imm_any:
        # finding K17 (listeners registered after a re-entrantly completing one see the API object as the nested
        # call left it): with re-entrant completions the EE's service-started listener is registered last
        ee = [r for r in regs if r["kind"] == "ss" and r["fn"] == 0]
        ee = ee[:1] if not ee else ee
        regs = [r for r in regs if not (r["kind"] == "ss" and r["fn"] == 0)] + ee
    ops += regs
    for o in range(rng.randint(0, 3)):
        ops.append({"op": "attach", "o": o})
    return ops


def apply_witness_op(run, op):
    """an action on the other scheduler of this process; recorded as a call of the scheduler under test that must
    leave it untouched (empty trace, same state)"""
    w = getattr(run, "witness", None)

    def act():
        if w is None or w.s is None:
            return None
        if op["op"] == "wstart":
            w.start()
        elif w.pending:
            w.complete(w.pending[op.get("n", 0) % len(w.pending)])
        return None

    return run._call(op, act)


def apply_op(run, op):
    o = op["op"]
    if o in ("wstart", "wfinish"):
        return apply_witness_op(run, op)
    if o == "revar":
        rec = run.reregister_access_function()
        rec["ret"] = None  # the API documents no return value
        return rec
    if o == "reg":
        return run.register(op["kind"], op["fn"])
    if o == "attach":
        rec = run.attach(op["o"])
        w = getattr(run, "witness", None)
        if w is not None and w.s is not None and getattr(run, "witness_idle", False) and op["o"] == 1:
            # the same observer object is then attached to the other (idle) scheduler of the process as well: it stays
            # attached HERE until it is detached here
            try:
                w.s.attach(run.observers[1])
            except Exception:  # noqa: BLE001
                pass
        return rec
    if o == "detach":
        return run.detach(op["o"])
    if o == "start":
        return run.start()
    if o == "finish":
        return run.complete(op["n"])
    if o == "junk":
        return run.junk(op)
    raise ValueError(o)


def run_impl(case, scratch=None):
    """Runs the case on the implementation.  If case has no "ops" the history is generated adaptively
    (and stored into the case together with the answers the EE gave)."""
    import impl

    rng = random.Random(case.get("seed", 0))
    explicit = "ops" in case
    if explicit:
        answers_list = case["answers"]
        counter = [0]

        def answers(name, ctx):
            k = counter[0]
            counter[0] += 1
            if k < len(answers_list):
                return answers_list[k]
            return case.get("terminator", TERMINATOR)
    else:
        answers = Answers(random.Random(rng.getrandbits(32)))
    imm = case["imm"]
    as_file = None
    if case.get("as_file"):
        as_file = os.path.join(os.getcwd(), "case_%d.pfdl" % os.getpid())
    witness = None
    if case.get("witness"):
        # a second scheduler of the same process with its own listeners and the shared function registered, never
        # started: nothing the scheduler under test does may reach it, and it must not influence registrations
        witness = impl.Run(case["text"], ids=case["ids"])
        if witness.s is not None:
            for k in ("ts", "ss", "sf", "tf"):
                if case.get("witness") != "live":
                    witness.s.__getattribute__({"ts": "register_callback_task_started", "ss": "register_callback_service_started",
                                                "sf": "register_callback_service_finished", "tf": "register_callback_task_finished"}[k])(impl.SHARED[k])
                witness.register(k, 0)
                witness.register(k, 1)
            witness.attach(0)
    run = impl.Run(case["text"], ids=case["ids"], draw=case.get("draw", False), sched_uuid=case.get("sched_uuid", ""),
                   answers=answers, imm=(lambda k: imm[k % len(imm)]) if imm else None,
                   mutate=case.get("mutate", False), as_file=as_file,
                   imm_other=(lambda k: case["imm_other"][k % len(case["imm_other"])]) if case.get("imm_other") else None,
                   imm_sf=(lambda k: case["imm_sf"][k % len(case["imm_sf"])]) if case.get("imm_sf") else None,
                   reuse_event=case.get("reuse_event"), reseed=bool(case.get("reseed")))
    if case.get("witness") and case.get("witness_late"):
        # yet another scheduler, constructed AFTER the one under test, with an execution engine of its own
        late = impl.Run(case["text"], ids=case["ids"], answers=lambda name, ctx: TERMINATOR if name != "p" else TERMINATOR_P)
        if late.s is not None:
            for k in ("ts", "ss", "sf", "tf"):
                late.register(k, 0)
        run.late_witness = late
    impl.SHARED_TARGET[0] = run
    run.witness = witness
    run.witness_idle = bool(case.get("witness")) and case.get("witness") != "live"
    res = {"valid": run.valid, "ctor_exc": run.ctor_exc, "ctor_out": run.ctor_out[:500]}
    if run.s is None or not run.valid:
        res["calls"] = []
        if not explicit:
            case["ops"] = []
            case["answers"] = []
        return res, run
    if explicit:
        for op in case["ops"]:
            if op["op"] in ("finish", "junk") and "n" in op and op["n"] >= len(run.announced):
                # the recorded history refers to a service that is not announced on this tree: the run diverged
                rec = {"op": op, "out": [], "ret": None, "exc": "ReplayDiverged", "stdout": ""}
                rec.update(run.snapshot())
                run.calls.append(rec)
                break
            rec = apply_op(run, op)
            if rec.get("exc") and op["op"] != "detach":
                break
    else:
        ops = []

        def do(op):
            ops.append(op)
            return apply_op(run, op)

        imm_any = any(imm) or any(case.get("imm_other") or [])
        for op in gen_prelude(rng, case.get("hist"), imm_any, shared=bool(case.get("witness"))):
            do(op)
        hist = case.get("hist")
        if hist and rng.random() < 0.3:
            do(gen_junk(rng, run, before_start=True))
        if case.get("start_by_event"):
            # the order is started through the public fire_event() with the internal start event (finding K8): only
            # for cases that are compared with the net layer of the model and not judged by the monitors
            rec = do({"op": "junk", "junk": "start_event"})
        else:
            rec = do({"op": "start"})
        n = 0
        crashed = bool(rec.get("exc"))
        live = case.get("witness") == "live" and witness is not None and witness.s is not None
        wstarted = False
        while run.pending and n < case.get("max_ops", 40) and not crashed:
            if live and rng.random() < 0.3:
                # the other scheduler of the process is started and driven in between (same test ids!)
                if not wstarted:
                    rec = do({"op": "wstart"})
                    wstarted = True
                else:
                    rec = do({"op": "wfinish", "n": rng.randrange(8)})
                n += 1
                continue
            if hist and rng.random() < 0.25:
                rec = do(gen_junk(rng, run))
            elif hist and rng.random() < 0.08:
                rec = do({"op": "start"})
            elif hist and rng.random() < 0.06:
                o = rng.randint(0, 2)
                att = [k for k, ob in run.observers.items() if ob in run.s.observers]
                if o in att:
                    rec = do({"op": "detach", "o": o})
                else:
                    rec = do({"op": "attach", "o": o})
            elif hist and rng.random() < 0.04:
                rec = do({"op": "revar"})  # the application exchanges its variable access function
            elif hist and rng.random() < 0.05:
                kind, fn = rng.choice(["ts", "ss", "sf", "tf"]), rng.randint(0, 2)
                if imm_any and kind == "ss":
                    fn = 0  # finding K17: no service-started listener after the re-entrantly completing one
                rec = do({"op": "reg", "kind": kind, "fn": fn})
            else:
                p = run.pending
                pick = case.get("pick", "random")
                if pick == "script":
                    # enumeration of completion orders: the i-th choice among the outstanding services
                    br = case.setdefault("_branching", [])
                    sp = case.get("script") or []
                    ch = sp[len(br)] if len(br) < len(sp) else 0
                    br.append(len(p))
                    k = sorted(p)[ch % len(p)]
                else:
                    k = p[0] if pick == "fifo" else p[-1] if pick == "lifo" else rng.choice(p)
                rec = do({"op": "finish", "n": k})
            crashed = bool(rec.get("exc"))
            n += 1
        if hist and not crashed:
            for _ in range(rng.randint(0, 2)):
                if rng.random() < 0.5:
                    do(gen_junk(rng, run))
                else:
                    do({"op": "start"})
        case["ops"] = ops
        case["answers"] = run.answers
        case["terminator"] = TERMINATOR
    res["calls"] = run.calls
    late = getattr(run, "late_witness", None)
    if late is not None and late.s is not None:
        got = [e[:6] for c in late.calls[4:] for e in c["out"]] + [e[:6] for e in late.prelude] + (["its execution engine was asked for %d values" % len(late.answers)] if late.answers else [])
        if got:
            rec = {"op": {"op": "witness"}, "out": [], "ret": None, "exc": None, "stdout": "", "witness_events": got[:5]}
            rec.update(run.snapshot())
            run.calls.append(rec)
    if witness is not None and witness.s is not None:
        got = [e[:6] for c in witness.calls[9:] for e in c["out"]] + [e[:6] for e in witness.prelude]
        if case.get("witness") == "live":
            got = [e[:6] for e in witness.prelude]  # it runs its own order: only what reaches it outside its own calls counts
        if got or (case.get("witness") != "live" and (len(witness.calls) != 9 or witness.s.running or len(witness.s.awaited_events) != 1)):
            rec = {"op": {"op": "witness"}, "out": [], "ret": None, "exc": None, "stdout": "",
                   "witness_events": got[:5] or ["state of the other scheduler changed: running=%r awaited=%d" % (witness.s.running, len(witness.s.awaited_events))]}
            rec.update(run.snapshot())
            run.calls.append(rec)
    res["announced"] = list(run.announced)
    res["pending"] = list(run.pending)
    return res, run


def gen_junk(rng, run, before_start=False):
    done = [k for k in range(len(run.announced)) if k not in run.pending]
    choices = ["unknown", "type", "nodata", "emptydata", "default", "type2"]
    if done:
        choices += ["dup", "dup", "fromjson"]
    if run.announced:
        choices += ["wrongkey", "pairs", "pairsjson"]
    if not before_start:
        choices += ["start_event"]  # before start() this is known finding K8 (own stream)
    j = rng.choice(choices)
    if j in ("dup", "fromjson"):
        return {"op": "junk", "junk": j, "n": rng.choice(done)}
    if j == "wrongkey":
        return {"op": "junk", "junk": j, "n": rng.randrange(len(run.announced))}
    if j in ("pairs", "pairsjson"):
        pend = sorted(run.pending)
        n = rng.choice(pend) if pend and rng.random() < 0.8 else rng.randrange(len(run.announced))
        return {"op": "junk", "junk": j, "n": n, "form": rng.choice(["list", "items"])}
    if j == "type":
        return {"op": "junk", "junk": "type", "t": rng.choice(["loc_started", "task_finished", "", "SERVICE_FINISHED"]),
                "data": rng.choice([{}, {"place_uuid": "x"}, {"service_uuid": "0"}])}
    if j == "type2":
        # internal SET_PLACE type with the id of an announced service as place name
        return {"op": "junk", "junk": "type", "t": "loc_started",
                "data": {"place_uuid": run.announced[0] if run.announced else "0"}}
    return {"op": "junk", "junk": j}


# ---------------------------------------------------------------------------------------------
# canonical traces

LOG_RE = re.compile(r"^(Task|Service) (\S+) with UUID '([^']*)' (started|finished)\.$")


def canon_impl_event(e):
    if e[0] == "UPD":
        if e[2] == "LOG":
            m = LOG_RE.match(e[3])
            if m:
                return ["LOG", e[1], m.group(1), m.group(2), m.group(3), m.group(4), e[4]]
            return ["LOG", e[1], "unparsed", e[3], e[4]]
        if e[2] == "NET":
            return ["NET", e[1]]
        if e[2] == "NETID":
            return ["UPD", e[1], "NETID", e[3]]
        return ["UPD", e[1], e[2]]
    if e[0] == "VAR":
        return ["VAR", e[1], e[2]]
    if e[0] == "RET":
        return ["RET", e[1]] if e[2] else ["RETFALSE", e[1]]
    return e


def canon_impl_calls(res):
    out = []
    for c in res["calls"]:
        evs = [canon_impl_event(e) for e in c["out"]]
        aw_ids = []
        start_awaited = False
        other_awaited = 0
        for t, d in c.get("awaited", []):
            if t == "service_finished":
                try:
                    aw_ids.append(json.loads(d)["service_uuid"])
                except Exception:  # noqa: BLE001
                    other_awaited += 1
            elif t == "start_production_task":
                start_awaited = True
            else:
                other_awaited += 1
        out.append({"op": c["op"], "ret": c["ret"], "out": evs, "running": c.get("running"),
                    "awaited": aw_ids, "start_awaited": start_awaited, "other_awaited": other_awaited,
                    "exc": c.get("exc"), "final_marking": c.get("final_marking"), "marked": c.get("marked"), "marking": c.get("marking"),
                    "not_running_in": c.get("not_running_in") or [], "witness_events": c.get("witness_events"),
                    "stale_var": c.get("stale_var")})
    return out


def rename_ids(calls):
    """canonical renaming of identifiers by first occurrence per kind (tasks / services)"""
    tmap, smap = {}, {}

    def t(i):
        if i is None:
            return None
        return tmap.setdefault(i, "T%d" % len(tmap))

    def s(i):
        return smap.setdefault(i, "S%d" % len(smap))

    out = []
    for c in calls:
        evs = []
        for e in c["out"]:
            e = list(e)
            if e[0] == "INV":
                if e[1][0] == "t":
                    e[5] = t(e[5])
                else:
                    e[5] = s(e[5])
                e[6] = t(e[6])
            elif e[0] == "VAR":
                e[2] = t(e[2])
            elif e[0] in ("FIRE", "RET", "RETFALSE"):
                e[1] = s(e[1])
            elif e[0] == "LOG" and e[2] in ("Task", "Service"):
                e[4] = t(e[4]) if e[2] == "Task" else s(e[4])
            evs.append(e)
        c2 = dict(c, out=evs, awaited=sorted(s(i) for i in c["awaited"]))
        out.append(c2)
    return out


def model_request(case, valid=True):
    return {"k": "sched", "prog": case["prog"], "answers": case["answers"],
            "terminator": case.get("terminator", TERMINATOR), "imm": case["imm"], "ops": case["ops"],
            "valid": valid}


def canon_model_calls(resp):
    out = []
    for c in resp["calls"]:
        out.append({"op": c["op"], "ret": c["ret"], "out": c["out"], "running": c["running"],
                    "awaited": c["awaited"], "start_awaited": c["start_awaited"], "other_awaited": 0,
                    "exc": c.get("exc") or ("raised" if c.get("stuck") == "raised" else None),
                    "stuck": c.get("stuck"), "finished": c.get("finished")})
    return out


class Scratch:
    """scratch working directory outside /repo and /verif, removed afterwards"""

    def __enter__(self):
        self.old = os.getcwd()
        self.dir = tempfile.mkdtemp(prefix="pfdl_verif_")
        os.chdir(self.dir)
        return self.dir

    def __exit__(self, *a):
        os.chdir(self.old)
        shutil.rmtree(self.dir, ignore_errors=True)
