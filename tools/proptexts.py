"""MANIFEST texts per property (filled as theorems land)."""
TEXTS = {}
