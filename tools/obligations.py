"""Property -> Lean theorems that stand for it (audited with `#print axioms` on every run).
Only names listed here count as proof obligations of a property; they live in lean/Props/*.lean
(property statements) and lean/PfdlProofs/*.lean (lemmas they rest on are not listed)."""

PROP_THEOREMS = {
}

# populated below so that the table stays readable


def _add(prop, *names):
    PROP_THEOREMS.setdefault(prop, []).extend(names)


# the invariant every reachable-state theorem rests on (holds after every history of API calls)
_REACH = ["Pfdl.Sched.runOps_inv"]

_add("C01", *_REACH, "Pfdl.Props.C01.no_stall", "Pfdl.Props.C01.awaited_eq_outstanding",
     "Pfdl.Props.C01.nothing_awaited_when_finished", "Pfdl.Props.C01.running_iff", "Pfdl.Props.C01.running_iff_init",
     "Pfdl.Props.C01.running_iff_full_false", "Pfdl.Props.C01.finished_absorbing")
_add("C08", *_REACH, "Pfdl.Props.C08.accept_iff", "Pfdl.Props.C08.accept_iff_partial", "Pfdl.Props.C08.accept_iff_full_false",
     "Pfdl.Props.C08.reject_noop", "Pfdl.Props.C08.as_if_never_sent", "Pfdl.Props.C08.start_idempotent",
     "Pfdl.Props.C08.invalid_inert")
_add("C13", "Pfdl.Props.C13.table_complete")
