"""Property -> Lean theorems that stand for it (audited with `#print axioms` on every run).
Only names listed here count as proof obligations of a property; they live in lean/Props/*.lean
(property statements) and lean/PfdlProofs/*.lean (lemmas they rest on are not listed)."""

PROP_THEOREMS = {
}

# populated below so that the table stays readable


def _add(prop, *names):
    PROP_THEOREMS.setdefault(prop, []).extend(names)


# the invariant every reachable-state theorem rests on (holds after every history of API calls)
_REACH = ["Pfdl.Sched.runOps_inv"]
_REACHT = ["Pfdl.Sched.runOps_tinv", "Pfdl.Props.C14.reachable_inv"]

_add("C01", *_REACH, "Pfdl.Props.C01.no_stall", "Pfdl.Props.C01.awaited_eq_outstanding",
     "Pfdl.Props.C01.nothing_awaited_when_finished", "Pfdl.Props.C01.running_iff", "Pfdl.Props.C01.running_iff_init",
     "Pfdl.Props.C01.running_iff_full_false", "Pfdl.Props.C01.finished_absorbing",
     "Pfdl.Props.C01.production_task_finished_once", *_REACHT)
# C01 at the net layer (the model of generator.py / logic.py / the callbacks as the code does them)
_add("C01", "Pfdl.Net.C01.final_place_exclusive_partial", "Pfdl.Net.C01.weighted_sum_constant", "Pfdl.Net.keeps",
     "Pfdl.Net.history_keeps", "Pfdl.Net.certCheck_sound", "Pfdl.Net.wsum_fireT")
_add("C07", *_REACHT, "Pfdl.Props.C07.services_balanced", "Pfdl.Props.C07.tasks_balanced", "Pfdl.Props.C07.all_finished_at_end",
     "Pfdl.Props.C07.production_task_notes", "Pfdl.Props.C07.service_finished_timely")
_add("C14", *_REACHT, "Pfdl.Props.C14.ids_consecutive", "Pfdl.Props.C14.unique_services", "Pfdl.Props.C14.unique_tasks",
     "Pfdl.Props.C14.finished_ids_were_started", "Pfdl.Props.C14.accepted_id_is_finished_id")
_add("C08", *_REACH, "Pfdl.Props.C08.accept_iff", "Pfdl.Props.C08.accept_iff_partial", "Pfdl.Props.C08.accept_iff_full_false",
     "Pfdl.Props.C08.reject_noop", "Pfdl.Props.C08.as_if_never_sent", "Pfdl.Props.C08.start_idempotent",
     "Pfdl.Props.C08.invalid_inert")
# C09 at the net layer: no look-up error (IndexError / KeyError / ValueError branches of the code-level model unreachable)
_add("C09", "Pfdl.Net.C09.no_lookup_error_partial", "Pfdl.Net.C09.accepted_no_lookup_error_partial",
     "Pfdl.Net.C09.construction_raises_nothing", "Pfdl.Net.generate_ginv", "Pfdl.Net.gkeeps", "Pfdl.Net.skeeps",
     # every program whose calls resolve, parallel loops and the net rebuilt at run time included
     "Pfdl.Net.C09.construction_raises_nothing_all", "Pfdl.Net.C09.construction_callbacks_resolve", "Pfdl.Net.akeeps",
     "Pfdl.Net.C09.step_safe_all", "Pfdl.Net.C09.history_safe_all", "Pfdl.Net.C09.no_lookup_error",
     "Pfdl.Net.C09.never_index_or_key_error", "Pfdl.Net.C09.accepted_no_lookup_error",
     "Pfdl.Props.C09.accepted_condition_logic_ok", "Pfdl.Props.C09.accepted_while_logic_ok",
     "Pfdl.Props.C09.accepted_condition_operands_ok", "Pfdl.Props.C09.accepted_while_operands_ok")
# C14 / C08 at the net layer, for every program: the awaited completions are pairwise different
_add("C14", "Pfdl.Net.C14.awaited_completions_distinct", "Pfdl.Net.C14.delivered_not_awaited", "Pfdl.Net.ikeeps")
_add("C08", "Pfdl.Net.C14.delivered_not_awaited", "Pfdl.Net.C14.awaited_completions_distinct")
# C20 / C17 at the net layer: fan-out of a task notification, registration
_add("C20", "Pfdl.Net.C20.task_finished_fanout", "Pfdl.Net.C20.register_refused", "Pfdl.Net.C20.register_appends")
_add("C17", "Pfdl.Net.C20.task_finished_fanout")
# C08 at the net layer (fire_event as the code does it, also when it is called re-entrantly)
_add("C08", "Pfdl.Net.C08.refused_no_effect", "Pfdl.Net.C08.fire_refused", "Pfdl.Net.C08.start_again_no_effect",
     "Pfdl.Net.C08.erased_before_delivery")
_ALL = ["Pfdl.Sched.runOps_all"]
_add("C02", "Pfdl.Props.C02.block_in_order", "Pfdl.Props.C02.block_handover", "Pfdl.Props.C02.block_end", "Pfdl.Props.C02.rest_shrinks")
_add("C03", "Pfdl.Props.C03.fork_all_at_once", "Pfdl.Props.C03.branches_independent", "Pfdl.Props.C03.join_then_continue",
     "Pfdl.Props.C03.join_on_entry", "Pfdl.Props.C03.open_fork_has_open_branch", "Pfdl.enterCalls_fork", "Pfdl.deliverL_frame")
_add("C04", "Pfdl.Props.C04.exec_queries", "Pfdl.Props.C04.condition_queries", "Pfdl.Props.C04.selects_branch",
     "Pfdl.Props.C04.no_failed_branch_continues")
_add("C05", "Pfdl.Props.C05.counting_step", "Pfdl.Props.C05.counting_resume", "Pfdl.Props.C05.counting_starts_at_zero",
     "Pfdl.Props.C05.counting_exact", "Pfdl.Props.C05.single_service_body", "Pfdl.Props.C05.while_step", "Pfdl.Props.C05.while_resume")
_add("C06", "Pfdl.Props.C06.ploop_step", "Pfdl.Props.C06.limit_read_once", "Pfdl.Props.C06.starts_N_instances",
     "Pfdl.Props.C06.starts_none", "Pfdl.Props.C06.join_then_continue", "Pfdl.enterCalls_fork")
_add("C15", *_ALL, "Pfdl.Props.C15.subst_shape", "Pfdl.Props.C15.subst_index", "Pfdl.Props.C15.loop_body_binding",
     "Pfdl.Props.C15.params_from_call_site")
_add("C17", *_ALL, "Pfdl.Props.C17.log_of_event", "Pfdl.Props.C17.mirror", "Pfdl.Props.C17.expand_receivers",
     "Pfdl.Props.C17.detached_receives_nothing", "Pfdl.Props.C17.net_notice", "Pfdl.Props.C17.flagged_eq_root", "Pfdl.Props.C17.flag_once")
_add("C18", "Pfdl.Props.C18.fire_independent_of_listeners", "Pfdl.Props.C18.start_independent_of_listeners",
     "Pfdl.Props.C18.history_independent_of_listeners", "Pfdl.Props.C18.deterministic")
_add("C20", "Pfdl.Props.C20.register_ret", "Pfdl.Props.C20.register_effect", "Pfdl.Props.C20.fanout",
     "Pfdl.Props.C20.fanout_service_started", "Pfdl.Props.C20.fanout_other", "Pfdl.Props.C20.listeners_nodup", "Pfdl.Props.C20.each_once")
_add("C09", "Pfdl.Props.C09.accepted_calls_resolve", "Pfdl.Props.C09.accepted_parallel_branches_resolve",
     "Pfdl.Props.C09.accepted_has_production_task", "Pfdl.Props.C09.accepted_no_direct_recursion",
     "Pfdl.Props.C09.accepted_limits_are_numbers", "Pfdl.Check.validate_total",
     "Pfdl.Sched.runOps_safe", "Pfdl.accepted_erasure_closed", "Pfdl.Props.C09.no_internal_error", "Pfdl.Props.C09.evaluates_of_fixed_value",
     "Pfdl.Props.C09.raises_only_for_named_causes")
_add("C10", "Pfdl.Check.checkStmt_descent", "Pfdl.Check.validate_of_nested_stmt", "Pfdl.Props.C10.nested_fault_reported",
     "Pfdl.Props.C10.unknown_task", "Pfdl.Props.C10.ill_formed_parallel_loop", "Pfdl.Props.C10.singleCall_iff",
     "Pfdl.Props.C10.unknown_variable_as_service_input", "Pfdl.Props.C10.unknown_variable_as_call_input", "Pfdl.Props.C10.call_arity",
     "Pfdl.Props.C10.no_production_task", "Pfdl.Props.C10.undeclared_task_output", "Pfdl.Props.C10.unknown_type_in_struct",
     "Pfdl.Props.C10.recursion_direct", "Pfdl.Check.checkExpr_logicOk", "Pfdl.Props.C10.logic_operand_in_while_guard",
     "Pfdl.Props.C10.logic_operand_in_condition", "Pfdl.Check.checkExpr_operandsOk",
     "Pfdl.Props.C10.ill_typed_operand_in_while_guard", "Pfdl.Props.C10.ill_typed_operand_in_condition")
_add("C16", "Pfdl.Props.C16.verdict_iff_no_output", "Pfdl.Props.C16.total_after_parsing", "Pfdl.Check.validate_total",
     "Pfdl.Check.access_typeable", "Pfdl.Check.checkExpr_total", "Pfdl.Props.C16.invalid_inert")
_add("C19", "Pfdl.Props.C19.in_file", "Pfdl.Check.validate_lines", "Pfdl.Props.C19.within_statement", "Pfdl.Props.C19.call_fault_at_call",
     "Pfdl.Props.C19.unknown_task_at_call", "Pfdl.Props.C19.no_production_task_at_line_1")
_add("C11", "Pfdl.Check.validate_nil_iff", "Pfdl.Check.checkTask_congr", "Pfdl.Check.exprTy_verdicts", "Pfdl.Props.C11.accepted_iff_good",
     "Pfdl.Props.C11.verdict_order_independent", "Pfdl.Props.C11.checks_depend_on_lookups_only", "Pfdl.Props.C11.well_typed_condition_accepted",
     "Pfdl.Props.C11.nesting_compositional")
_add("C13", "Pfdl.Props.C13.table_complete", "Pfdl.Props.C13.applyOp_sem", "Pfdl.Props.C13.exec_eq_sem", "Pfdl.Props.C13.decision_eq_truth",
     "Pfdl.Props.C13.mul_div_above_add_sub", "Pfdl.Props.C13.add_sub_above_comparisons", "Pfdl.Props.C13.comparisons_above_and_above_or",
     "Pfdl.Props.C13.left_associative", "Pfdl.Props.C13.negation_rank", "Pfdl.Props.C13.k10_witness", "Pfdl.Props.C13.minus_plus_split_harmless",
     "Pfdl.ExprParse.parseWith_flat", "Pfdl.ExprParse.parseWith_iff", "Pfdl.Props.C13.reading_iff", "Pfdl.Props.C13.table_vs_ordinary",
     "Pfdl.Props.C13.ordinary_reading_iff", "Pfdl.Props.C13.common_fragment_agrees", "Pfdl.Props.C13.flat_rot", "Pfdl.Props.C13.sem_rot",
     "Pfdl.Props.C13.decision_of_ordinary_reading", "Pfdl.Props.C13.canonB_iff",
     "Pfdl.Surface.spine_rot", "Pfdl.Surface.canon_rot", "Pfdl.Props.C13.precedence_general", "Pfdl.Props.C13.k10_value_differs")
_add("C12", "Pfdl.Denter.run_ok", "Pfdl.Denter.run_spec", "Pfdl.Props.C12.blocks_balanced", "Pfdl.Props.C12.crlf_indent", "Pfdl.Props.C12.crlf_irrelevant",
     "Pfdl.Props.C12.blank_lines_irrelevant", "Pfdl.Props.C12.leading_lines_irrelevant", "Pfdl.Props.C12.final_newline_irrelevant",
     "Pfdl.Props.C12.nesting_from_depths", "Pfdl.Props.C12.indentation_width_irrelevant", "Pfdl.Props.C12.trailing_blank_irrelevant",
     "Pfdl.Props.C12.comment_irrelevant",
     "Pfdl.Json.pVal_pr", "Pfdl.Json.parseObj_pr", "Pfdl.Syntax.pStmt_pr", "Pfdl.Syntax.parse_print", "Pfdl.Props.C12.model_is_image_of_text",
     "Pfdl.Props.C12.different_models_different_text", "Pfdl.Props.C12.literal_placement_irrelevant",
     "Pfdl.Props.C12.grammar_expressions_ok", "Pfdl.Props.C12.statement_line_is_first_token", "Pfdl.Props.C12.exModel_ok")
