"""Property -> Lean theorems that stand for it (audited with `#print axioms` on every run).
Only names listed here count as proof obligations of a property; they live in lean/Props/*.lean
(property statements) and lean/PfdlProofs/*.lean (lemmas they rest on are not listed)."""

PROP_THEOREMS = {
}

# populated below so that the table stays readable


def _add(prop, *names):
    PROP_THEOREMS.setdefault(prop, []).extend(names)


_add("C13", "Pfdl.Props.C13.table_complete")
