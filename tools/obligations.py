"""Property -> Lean theorems that stand for it (audited with `#print axioms` on every run).
Only names listed here count as proof obligations of a property; they live in lean/Props/*.lean
(property statements) and lean/PfdlProofs/*.lean (lemmas they rest on are not listed)."""

PROP_THEOREMS = {
}

# populated below so that the table stays readable


def _add(prop, *names):
    PROP_THEOREMS.setdefault(prop, []).extend(names)


# the invariant every reachable-state theorem rests on (holds after every history of API calls)
_REACH = ["Pfdl.Sched.runOps_inv"]
_REACHT = ["Pfdl.Sched.runOps_tinv", "Pfdl.Props.C14.reachable_inv"]

_add("C01", *_REACH, "Pfdl.Props.C01.no_stall", "Pfdl.Props.C01.awaited_eq_outstanding",
     "Pfdl.Props.C01.nothing_awaited_when_finished", "Pfdl.Props.C01.running_iff", "Pfdl.Props.C01.running_iff_init",
     "Pfdl.Props.C01.running_iff_full_false", "Pfdl.Props.C01.finished_absorbing",
     "Pfdl.Props.C01.production_task_finished_once", *_REACHT)
_add("C07", *_REACHT, "Pfdl.Props.C07.services_balanced", "Pfdl.Props.C07.tasks_balanced", "Pfdl.Props.C07.all_finished_at_end",
     "Pfdl.Props.C07.production_task_notes", "Pfdl.Props.C07.service_finished_timely")
_add("C14", *_REACHT, "Pfdl.Props.C14.ids_consecutive", "Pfdl.Props.C14.unique_services", "Pfdl.Props.C14.unique_tasks",
     "Pfdl.Props.C14.finished_ids_were_started", "Pfdl.Props.C14.accepted_id_is_finished_id")
_add("C08", *_REACH, "Pfdl.Props.C08.accept_iff", "Pfdl.Props.C08.accept_iff_partial", "Pfdl.Props.C08.accept_iff_full_false",
     "Pfdl.Props.C08.reject_noop", "Pfdl.Props.C08.as_if_never_sent", "Pfdl.Props.C08.start_idempotent",
     "Pfdl.Props.C08.invalid_inert")
_add("C13", "Pfdl.Props.C13.table_complete")
