"""Translator part of the tie to the source: re-extracts the declarative tables the Lean theorems depend
on from /repo's Python sources (with `ast`, nothing is imported or executed) and rewrites
lean/PfdlModel/Generated.lean if its content changed.

Extracted:  helpers.parse_operator's `ops` dict; process.Process' default start task name; the event type
constants of scheduling/event.py; the wiring of Scheduler.register_for_petrinet_callbacks; the operator
class lists and primitive type lists of the semantic checker.

Exit status: 0 ok; on a pattern that is no longer found the generated file contains `extractionFailures`
with the names, which breaks the `Generated` sanity theorems (tie broken -> search for a failing input)."""
import ast
import os
import re
import sys

REPO = os.environ.get("PFDL_REPO", "/repo")
HERE = os.path.dirname(os.path.abspath(__file__))
OUT = os.path.join(HERE, "..", "lean", "PfdlModel", "Generated.lean")

PYOPS = ["gt", "ge", "lt", "le", "eq", "ne", "and_", "or_", "add", "sub", "mul", "truediv",
         "floordiv", "mod", "pow", "xor"]


def parse(rel):
    with open(os.path.join(REPO, rel)) as f:
        return ast.parse(f.read())


def find_func(tree, name):
    for n in ast.walk(tree):
        if isinstance(n, (ast.FunctionDef,)) and n.name == name:
            return n
    return None


def lean_str(s):
    return '"' + s.replace("\\", "\\\\").replace('"', '\\"') + '"'


def extract():
    fails = []
    out = {}
    # operator table ---------------------------------------------------------------------------
    ops = None
    try:
        f = find_func(parse("pfdl_scheduler/utils/helpers.py"), "parse_operator")
        for n in ast.walk(f):
            if isinstance(n, ast.Assign) and isinstance(n.value, ast.Dict):
                ops = []
                for k, v in zip(n.value.keys, n.value.values):
                    key = k.value
                    if isinstance(v, ast.Attribute) and isinstance(v.value, ast.Name) and v.value.id == "operator":
                        fn = v.attr if v.attr in PYOPS else "other"
                    else:
                        fn = "other"
                    ops.append((key, fn))
    except Exception:  # noqa: BLE001
        ops = None
    if ops is None:
        fails.append("opTable")
        ops = []
    out["ops"] = ops
    # start task name ----------------------------------------------------------------------------
    start = None
    try:
        tree = parse("pfdl_scheduler/model/process.py")
        init = find_func(tree, "__init__")
        args = init.args
        names = [a.arg for a in args.args]
        defaults = args.defaults
        off = len(names) - len(defaults)
        for i, d in enumerate(defaults):
            if names[off + i] == "start_task_name" and isinstance(d, ast.Constant):
                start = d.value
    except Exception:  # noqa: BLE001
        pass
    if start is None:
        fails.append("startTaskName")
        start = ""
    out["start"] = start
    # event constants ----------------------------------------------------------------------------
    consts = {}
    try:
        tree = parse("pfdl_scheduler/scheduling/event.py")
        for n in tree.body:
            if isinstance(n, ast.Assign) and isinstance(n.value, ast.Constant) and isinstance(n.targets[0], ast.Name):
                consts[n.targets[0].id] = n.value.value
    except Exception:  # noqa: BLE001
        pass
    for k in ("START_PRODUCTION_TASK", "SET_PLACE", "SERVICE_FINISHED"):
        if k not in consts:
            fails.append(k)
            consts[k] = ""
    out["consts"] = consts
    # callback wiring ----------------------------------------------------------------------------
    wiring = []
    try:
        f = find_func(parse("pfdl_scheduler/scheduler.py"), "register_for_petrinet_callbacks")
        for n in f.body:
            if isinstance(n, ast.Assign) and isinstance(n.targets[0], ast.Attribute) and isinstance(n.value, ast.Attribute):
                t = n.targets[0]
                if isinstance(t.value, ast.Name) and t.value.id == "callbacks":
                    wiring.append((t.attr, n.value.attr))
    except Exception:  # noqa: BLE001
        pass
    if not wiring:
        fails.append("wiring")
    out["wiring"] = wiring
    # checker lists ------------------------------------------------------------------------------
    lists = {"ordOps": None, "arithOps": None, "primitives": None, "condTypes": None}
    try:
        tree = parse("pfdl_scheduler/validation/semantic_error_checker.py")
        f = find_func(tree, "check_binary_operation")
        found = []
        for n in ast.walk(f):
            if isinstance(n, ast.Compare) and isinstance(n.ops[0], ast.In) and isinstance(n.comparators[0], ast.List):
                found.append([e.value for e in n.comparators[0].elts])
        for l in found:
            if "<" in l:
                lists["ordOps"] = l
            if "+" in l:
                lists["arithOps"] = l
        f = find_func(tree, "variable_type_exists")
        for n in ast.walk(f):
            if isinstance(n, ast.Compare) and isinstance(n.ops[0], ast.NotIn) and isinstance(n.comparators[0], ast.List):
                lists["primitives"] = [e.value for e in n.comparators[0].elts]
        f = find_func(tree, "check_single_expression")
        for n in ast.walk(f):
            if isinstance(n, ast.Compare) and isinstance(n.ops[0], ast.In) and isinstance(n.comparators[0], ast.List):
                lists["condTypes"] = [e.value for e in n.comparators[0].elts]
    except Exception:  # noqa: BLE001
        pass
    for k, v in lists.items():
        if v is None:
            fails.append(k)
            lists[k] = []
    out["lists"] = lists
    # precedence of the expression rule, from the generated parser ---------------------------------
    prec, unary = [], None
    try:
        with open(os.path.join(REPO, "pfdl_scheduler/parser/PFDLParser.py")) as f:
            src = f.read()
        lit = ast.literal_eval(re.search(r"literalNames = (\[.*?\])", src, re.S).group(1))
        tokno = {m.group(1): int(m.group(2)) for m in re.finditer(r"^    ([A-Z_0-9]+)=(\d+)$", src, re.M)}

        def text_of(tok):
            return lit[tokno[tok]].strip("'")

        m = re.search(r"\n    def binOperation\(self\):(.*?)\n    def ", src, re.S)
        cmp_ops = [text_of(t) for t in re.findall(r"1 << PFDLParser\.([A-Z_]+)", m.group(1))]
        m = re.search(r"\n    def unOperation\(self\):(.*?)\n    def ", src, re.S)
        un_ops = [text_of(t) for t in re.findall(r"self\.match\(PFDLParser\.([A-Z_]+)\)", m.group(1))]
        m = re.search(r"\n    def expression\(self, _p:int=0\):(.*?)\n    class ", src, re.S)
        body = m.group(1)
        cur = None
        pending_un = False
        for line in body.splitlines():
            mm = re.search(r"if not self\.precpred\(self\._ctx, (\d+)\)", line)
            if mm:
                cur = {"prec": int(mm.group(1)), "ops": None}
                continue
            if "self.unOperation()" in line:
                pending_un = True
                continue
            mm = re.search(r"self\.match\(PFDLParser\.([A-Z_]+)\)", line)
            if mm and cur is not None and cur["ops"] is None:
                cur["ops"] = [text_of(mm.group(1))]
                continue
            if "self.binOperation()" in line and cur is not None and cur["ops"] is None:
                cur["ops"] = cmp_ops
                continue
            mm = re.search(r"self\.expression\((\d+)\)", line)
            if mm:
                if pending_un:
                    unary = int(mm.group(1))
                    pending_un = False
                elif cur is not None and cur["ops"] is not None:
                    for o in cur["ops"]:
                        prec.append((o, cur["prec"], int(mm.group(1))))
                    cur = None
        if un_ops != ["!"]:
            unary = None
    except Exception:  # noqa: BLE001
        prec, unary = [], None
    if not prec or unary is None:
        fails.append("precTable")
        unary = unary or 0
    out["prec"] = prec
    out["unary"] = unary
    out["fails"] = fails
    return out


def render(x):
    ops = ", ".join("(%s, .%s)" % (lean_str(k), fn) for k, fn in x["ops"])
    wiring = ", ".join("(%s, %s)" % (lean_str(a), lean_str(b)) for a, b in x["wiring"])

    prec = ", ".join("(%s, %d, %d)" % (lean_str(o), a, b) for o, a, b in x["prec"])

    def strlist(l):
        return "[" + ", ".join(lean_str(s) for s in l) + "]"

    return f"""/-! GENERATED by tools/extract.py from /repo sources on every run — do not edit by hand. -/
namespace Pfdl.Generated

/-- Python `operator` functions that `helpers.parse_operator` may map to. -/
inductive PyOp where
  | gt | ge | lt | le | eq | ne | and_ | or_ | add | sub | mul | truediv
  | floordiv | mod | pow | xor | other
deriving Repr, DecidableEq, Inhabited

/-- `helpers.parse_operator`: the `ops` dict, in source order. -/
def opTable : List (String × PyOp) :=
  [{ops}]

/-- `model/process.py`: default name of the start task. -/
def startTaskName : String := {lean_str(x["start"])}

/-- `scheduling/event.py` constants. -/
def evStart : String := {lean_str(x["consts"]["START_PRODUCTION_TASK"])}
def evSetPlace : String := {lean_str(x["consts"]["SET_PLACE"])}
def evServiceFinished : String := {lean_str(x["consts"]["SERVICE_FINISHED"])}

/-- `Scheduler.register_for_petrinet_callbacks`: (net callback slot, scheduler method), in source order. -/
def wiring : List (String × String) :=
  [{wiring}]

/-- `SemanticErrorChecker.check_binary_operation`: operator classes. -/
def ordOps : List String := {strlist(x["lists"]["ordOps"])}
def arithOps : List String := {strlist(x["lists"]["arithOps"])}
/-- `SemanticErrorChecker.variable_type_exists`: primitive type names. -/
def primitives : List String := {strlist(x["lists"]["primitives"])}
/-- `SemanticErrorChecker.check_single_expression`: attribute types allowed as a whole condition. -/
def condTypes : List String := {strlist(x["lists"]["condTypes"])}

/-- `PFDLParser.expression` (generated from the grammar's alternative order): operator, its precedence
    `precpred(_ctx, n)`, and the minimum precedence `expression(m)` of its right operand. -/
def precTable : List (String × Nat × Nat) :=
  [{prec}]
/-- `unOperation expression(m)`: minimum precedence of the operand of `!`. -/
def unaryPrec : Nat := {x["unary"]}

/-- patterns the extractor no longer found in the sources (must be empty) -/
def extractionFailures : List String := {strlist(x["fails"])}

end Pfdl.Generated
"""


def main():
    x = extract()
    text = render(x)
    old = None
    if os.path.exists(OUT):
        with open(OUT) as f:
            old = f.read()
    if old != text:
        with open(OUT, "w") as f:
            f.write(text)
        print("Generated.lean rewritten")
    if x["fails"]:
        print("extraction failures:", x["fails"])
    return 0


if __name__ == "__main__":
    sys.exit(main())
