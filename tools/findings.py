"""Known findings: genuine defects of iml130/pfdl that are recorded rather than repaired.
KNOWN_FINDINGS.txt is never written at run time.

  open:  property=C06 id=K2 rule=instance_count replay=findings/K2.json <what fails>
  fixed: property=C01 <commit> <what failed>
"""
import json
import os
import re

HERE = os.path.dirname(os.path.abspath(__file__))
VERIF = os.path.abspath(os.path.join(HERE, ".."))
FILE = os.path.join(VERIF, "KNOWN_FINDINGS.txt")


def load():
    out = []
    if not os.path.exists(FILE):
        return out
    with open(FILE) as f:
        for line in f:
            line = line.strip()
            if not line or line.startswith("#"):
                continue
            if line.startswith("open:"):
                body = line[len("open:"):].strip()
                kv = dict(re.findall(r"(\w+)=(\S+)", body))
                rest = re.sub(r"^(\s*\w+=\S+)+\s*", "", body)
                out.append({"state": "open", "property": kv.get("property"), "id": kv.get("id"), "rule": kv.get("rule"),
                            "replay": kv.get("replay"), "text": rest})
            elif line.startswith("fixed:"):
                body = line[len("fixed:"):].strip()
                kv = dict(re.findall(r"(\w+)=(\S+)", body))
                out.append({"state": "fixed", "property": kv.get("property"), "text": body})
    return out


def open_for(prop):
    return [f for f in load() if f["state"] == "open" and f["property"] == prop]


def load_replay(f):
    with open(os.path.join(VERIF, f["replay"])) as fh:
        return json.load(fh)
