"""scratch experiment: compare impl and model traces on random cases (not part of the checks)"""
import json
import os
import random
import subprocess
import sys

sys.path.insert(0, os.path.dirname(os.path.abspath(__file__)))
import progs
import schedcase as sc
import monitors

MODEL = os.path.join(os.path.dirname(os.path.abspath(__file__)), "..", "lean", ".lake", "build", "bin", "pfdl-model")


def main():
    n = int(sys.argv[1])
    seed = int(sys.argv[2]) if len(sys.argv) > 2 else 1
    hist = len(sys.argv) > 3 and sys.argv[3] == "hist"
    rng = random.Random(seed)
    cases = []
    with sc.Scratch():
        for i in range(n):
            case = sc.gen_case(rng, hist=hist)
            res, run = sc.run_impl(case)
            cases.append((case, res))
    reqs = "\n".join(json.dumps(sc.model_request(c, valid=r["valid"])) for c, r in cases) + "\n"
    p = subprocess.run([MODEL], input=reqs, capture_output=True, text=True)
    outs = p.stdout.strip().split("\n")
    bad = 0
    invalid = 0
    exc = 0
    for (case, res), line in zip(cases, outs):
        resp = json.loads(line)
        if "error" in resp:
            print("MODEL ERROR", resp["error"])
            bad += 1
            continue
        if not res["valid"]:
            invalid += 1
            print("INVALID", res["ctor_exc"], res["ctor_out"][:300])
            print(case["text"])
            continue
        ic = sc.canon_impl_calls(res)
        viol, stats = monitors.monitor_all(case, ic, case["answers"])
        if viol:
            print("MONITOR", viol[:3])
            print(case["text"]); print("imm", case["imm"], "ops", case["ops"])
            bad += 1
        mc = sc.canon_model_calls(resp)
        if any(c["exc"] for c in ic):
            exc += 1
        ok = True
        for a, b in zip(ic, mc):
            ao = [e for e in a["out"] if e[0] != "NET"]
            bo = [e for e in b["out"] if e[0] != "NET"]
            if ao != bo or a["ret"] != b["ret"] or a["running"] != b["running"] or sorted(a["awaited"]) != sorted(b["awaited"]) or a["exc"] != b["exc"]:
                ok = False
                print("MISMATCH in call", a["op"], "ret", a["ret"], b["ret"], "running", a["running"], b["running"], "aw", a["awaited"], b["awaited"], "exc", a["exc"], b["exc"], b.get("stuck"))
                for x, y in zip(ao, bo):
                    print("  " if x == y else "!!", x, "|", y)
                if len(ao) != len(bo):
                    print("len", len(ao), len(bo), ao[len(bo):][:4], bo[len(ao):][:4])
                break
        if len(ic) != len(mc):
            ok = False
            print("CALL COUNT", len(ic), len(mc))
        if not ok:
            bad += 1
            print(case["text"])
            print("imm", case["imm"], "ops", case["ops"])
            if bad >= 3:
                break
    print("cases", len(cases), "bad", bad, "invalid", invalid, "with exc", exc)


main()
