"""Writes seeded/README.md: one line per seeded change (what it does, result of the last sweep)."""
import json
import os
import re

VERIF = os.path.abspath(os.path.join(os.path.dirname(os.path.abspath(__file__)), ".."))


def main():
    d = os.path.join(VERIF, "seeded")
    sweep = {}
    if os.path.exists(os.path.join(d, "SWEEP.json")):
        with open(os.path.join(d, "SWEEP.json")) as f:
            sweep = json.load(f)
    rows = ["# Seeded changes", "",
            "Each directory: `patch.diff` (applies to /repo's HEAD with `git apply`), `demo.py` (exit 0 without / 1 with the patch), `notes.txt`, `meta.json`.",
            "Result column: outcome of `./check <property> quick` with the patch applied (last `tools/seedsweep.py`).", "",
            "| id | change (first lines of the author's notes) | result |", "|---|---|---|"]
    for sid in sorted(x for x in os.listdir(d) if os.path.isdir(os.path.join(d, x))):
        with open(os.path.join(d, sid, "meta.json")) as f:
            meta = json.load(f)
        notes = re.sub(r"\s+", " ", meta.get("needs_to_manifest", "")).strip()[:260].replace("|", "/")
        sw = sweep.get(sid, {})
        if meta.get("obsolete"):
            res = "obsolete: " + meta["obsolete"][:120]
        elif sw.get("exit") == 1:
            v = (sw.get("violation") or [""])[0]
            res = "detected: `" + re.sub(r".*replays/(.*?)\.json.*", r"\1", v) + "`" + (" (no-failing-input-found)" if "no-failing" in v else "")
        elif meta.get("not_detected"):
            res = "NOT detected (known gap): " + meta["not_detected"][:160]
        elif sw:
            res = "exit %s" % sw.get("exit", sw.get("error"))
        elif meta.get("detected_by"):
            # not in the last sweep: the result recorded when the change was confirmed (tools/seedtest.py)
            cr = (meta.get("check_results") or {}).get(meta["breaks_property"], {})
            v = (cr.get("lines") or [""])[0]
            res = "detected: `" + re.sub(r".*replays/(.*?)\.json.*", r"\1", v) + "`" + (" (no-failing-input-found)" if "no-failing" in v else "") + " (at confirmation)"
        else:
            res = "not swept yet"
        if meta.get("ported"):
            res += "; re-based"
        rows.append("| %s | %s | %s |" % (sid, notes, res))
    with open(os.path.join(d, "README.md"), "w") as f:
        f.write("\n".join(rows) + "\n")
    print(len(rows) - 7, "seeds")


if __name__ == "__main__":
    main()
