"""python3 tools/detectrate.py <seed id> [n]: applies the seeded patch, runs the property's quick check with n different VERIF_SEED values, reverts."""
import json, os, subprocess, sys
VERIF = os.path.abspath(os.path.join(os.path.dirname(os.path.abspath(__file__)), ".."))
sid = sys.argv[1]; n = int(sys.argv[2]) if len(sys.argv) > 2 else 4
meta = json.load(open(os.path.join(VERIF, "seeded", sid, "meta.json")))
prop = meta["breaks_property"]
assert not subprocess.run("git status --porcelain", shell=True, cwd="/repo", capture_output=True, text=True).stdout.strip()
subprocess.run("git apply %s" % os.path.join(VERIF, "seeded", sid, "patch.diff"), shell=True, cwd="/repo", check=True)
hits = 0
try:
    for s in range(1, n + 1):
        r = subprocess.run(["./check", prop, "quick"], cwd=VERIF, env=dict(os.environ, VERIF_SEED=str(1000 + s)), capture_output=True, text=True)
        hits += r.returncode == 1
        print(sid, prop, "seed", 1000 + s, "exit", r.returncode, flush=True)
finally:
    subprocess.run("git checkout -- . && git clean -fdq -- pfdl_scheduler", shell=True, cwd="/repo")
print(sid, "detected in %d of %d runs" % (hits, n))
