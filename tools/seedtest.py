"""Confirm a seeded change (patch.diff + demo.py) and run the registered checks against it.

  python3 tools/seedtest.py <deliver_dir> <scratch_worktree> <seed_id> <primary_property> [more properties...]

1. in the scratch worktree: demo passes without the patch; with the patch the test suite still passes and the demo fails
2. applies the patch to /repo, runs ./check <prop> quick for each property, reverts /repo
3. writes /verif/seeded/<seed_id>/{patch.diff,demo.py,notes.txt,meta.json}
"""
import json
import os
import shutil
import subprocess
import sys

VERIF = os.path.abspath(os.path.join(os.path.dirname(os.path.abspath(__file__)), ".."))


def sh(cmd, cwd=None, timeout=1800):
    p = subprocess.run(cmd, shell=True, cwd=cwd, capture_output=True, text=True, timeout=timeout)
    return p.returncode, (p.stdout + p.stderr)


def main():
    deliver, wt, seed_id, props = sys.argv[1], sys.argv[2], sys.argv[3], sys.argv[4:]
    patch = os.path.join(deliver, "patch.diff")
    demo = os.path.join(deliver, "demo.py")
    meta = {"seed_id": seed_id, "breaks_property": props[0], "checked_properties": props}
    scratch = os.path.join(wt, "scratch_confirm")
    os.makedirs(scratch, exist_ok=True)
    sh("git checkout -- pfdl_scheduler", cwd=wt)
    rc0, out0 = sh("/venv/bin/python %s %s" % (demo, wt), cwd=scratch, timeout=600)
    rc, out = sh("git apply %s" % patch, cwd=wt)
    if rc != 0:
        print("patch does not apply:", out)
        return 2
    rct, outt = sh("/venv/bin/python -m pytest -q -p no:cacheprovider 2>&1 | tail -1", cwd=wt)
    rc1, out1 = sh("/venv/bin/python %s %s" % (demo, wt), cwd=scratch, timeout=600)
    sh("git checkout -- pfdl_scheduler", cwd=wt)
    shutil.rmtree(scratch, ignore_errors=True)
    meta["confirm"] = {"demo_exit_without_patch": rc0, "demo_exit_with_patch": rc1, "tests_with_patch": outt.strip()[-60:]}
    confirmed = rc0 == 0 and rc1 != 0 and "117 passed" in outt
    meta["confirmed"] = confirmed
    print("confirm:", meta["confirm"], "->", "CONFIRMED" if confirmed else "NOT CONFIRMED")
    if not confirmed:
        print(out0[-500:], out1[-500:])
        return 1
    # run the checks against /repo with the patch
    rc, out = sh("git -C /repo status --porcelain")
    if out.strip():
        print("/repo is not clean:", out)
        return 2
    rc, out = sh("git -C /repo apply %s" % patch)
    if rc != 0:
        print("patch does not apply to /repo:", out)
        return 2
    results = {}
    try:
        for p in props:
            rcc, outc = sh("./check %s quick" % p, cwd=VERIF, timeout=3600)
            lines = [l for l in outc.splitlines() if l.startswith("VIOLATION") or l.startswith("  ")]
            results[p] = {"exit": rcc, "lines": lines[:4]}
            print(p, "exit", rcc, (lines[:2] or [""]))
    finally:
        sh("git -C /repo checkout -- .")
    meta["check_results"] = results
    meta["detected_by"] = [p for p, r in results.items() if r["exit"] == 1]
    d = os.path.join(VERIF, "seeded", seed_id)
    os.makedirs(d, exist_ok=True)
    shutil.copy(patch, os.path.join(d, "patch.diff"))
    shutil.copy(demo, os.path.join(d, "demo.py"))
    if os.path.exists(os.path.join(deliver, "notes.txt")):
        shutil.copy(os.path.join(deliver, "notes.txt"), os.path.join(d, "notes.txt"))
        with open(os.path.join(deliver, "notes.txt")) as f:
            meta["needs_to_manifest"] = f.read()[:1500]
    meta["what_was_run"] = "demo.py with/without patch and the 117-test suite in a scratch worktree; ./check <prop> quick against /repo with the patch applied (git apply), reverted afterwards"
    with open(os.path.join(d, "meta.json"), "w") as f:
        json.dump(meta, f, indent=1)
    print("detected by:", meta["detected_by"])
    return 0


if __name__ == "__main__":
    sys.exit(main())
