"""Typed random generator of well-formed PFDL programs, layout printer with line spans, and a
catalogue of single-fault mutations (validation properties C10, C11, C16, C19).

AST: the JSON format of tools/progs.py (see there), as a compatible superset:
  program = {"structs":[{"name":S,"attrs":[[a,type],...]}], "tasks":[task,...],
             "order": [["struct",i]|["task",i], ...]   (optional: print order of the definitions)
             "features": [...]                         (optional: informative, constructs used)}
  type    = "number" | "string" | "boolean" | "<Struct>" | "<elem>[]" | "<elem>[<n>]"
  task    = {"name":t,"ins":[[x,type],...],"outs":[x,...],"body":[stmt,...]}
  stmt    = {"k":"svc"|"call","name":..,"ins":[param],"outs":[[x,type]]} | {"k":"par","calls":[call..]}
          | {"k":"cond","e":expr,"passed":[stmt],"failed":[stmt]|None}
          | {"k":"cloop","var":i,"limit":int|path,"body":[stmt]} | {"k":"wloop","e":expr,"body":[stmt]}
          | {"k":"ploop","var":i,"limit":int|path,"call":call}
            (only in *mutated* programs: {"k":"ploop",...,"body":[stmt,...]} instead of "call")
  param   = "x" | [seg,...] | {"lit":S,"json":{...}}
  expr    = int|float|bool | '"text"' (string literal, quotes included) | [seg..]
          | {"unOp":"!","value":e} | {"binOp":op,"left":e,"right":e} | {"left":"(","binOp":e,"right":")"}
print_program() adds "line"/"end_line" (1-based, inclusive) to every struct, task, statement and call
dict (and "e_line" to cond statements: the line of the expression).

Decisions where docs/pfdl/*.md are silent (see also the report of vgen_selftest.py):
  * In parameters / Out definitions of primitive or array type: the grammar allows any type, generated
    with low probability (they can only be passed on whole, the language has no syntax to look into them).
  * types are compared by exact equality ("P[2]" is not "P[]").
  * a variable is only used textually after one of its definitions; re-definition keeps the type.
  * array elements ("a.b[0].c") inside expressions / loop limits: syntactically legal, nothing in the docs
    uses them; NOT generated unless allow=("expr_array_elem",) is passed.
  * strings in expressions: only as BOTH operands of an ordering comparison (< > <= >=).  "==" / "!=" with
    string operands is NOT generated (project decision: the checker restricts operands of == != And Or and
    whole conditions to number/boolean); allow=("string_eq",) switches it on for experiments.
"""
import copy
import json
import random
import re

PRIMS = ("number", "string", "boolean")
KEYWORDS = {"Struct", "Task", "In", "Out", "Loop", "While", "To", "Parallel", "Condition", "Passed", "Failed",
            "OnDone", "End", "number", "string", "boolean", "true", "false", "And", "Or"}
START_TASK = "productionTask"

# ---------------------------------------------------------------------------------------------------
# types and static helpers on ASTs

_TYPE_RE = re.compile(r"^([A-Za-z][A-Za-z0-9_]*)(?:\[(\d*)\])?$")


def parse_type(t):
    """'P' -> ('P', None); 'P[]' -> ('P', -1); 'P[2]' -> ('P', 2)"""
    m = _TYPE_RE.match(t)
    if not m:
        raise ValueError("bad type %r" % (t,))
    if m.group(2) is None:
        return m.group(1), None
    return m.group(1), (-1 if m.group(2) == "" else int(m.group(2)))


def struct_table(prog):
    """name -> list of [attr, type] (first definition / first attribute of a name wins)"""
    tab = {}
    for s in prog["structs"]:
        if s["name"] not in tab:
            attrs, seen = [], set()
            for a, t in s["attrs"]:
                if a not in seen:
                    seen.add(a)
                    attrs.append([a, t])
            tab[s["name"]] = attrs
    return tab


def task_table(prog):
    tab = {}
    for t in prog["tasks"]:
        tab.setdefault(t["name"], t)
    return tab


def is_idx(seg):
    return seg.startswith("[")


def ploop_stmts(s):
    """statements of a parallel loop (one call in well-formed programs)"""
    return s["body"] if "body" in s else [s["call"]]


def iter_nodes(stmts, ref, loopvars=()):
    """yields (node, ref, role, loopvars) for every statement and every call of Parallel / parallel loops;
    role: 'stmt' | 'parcall' | 'ploopcall'.  ref = list of keys/indices from the program root."""
    for i, s in enumerate(stmts):
        r = ref + [i]
        yield s, r, "stmt", loopvars
        k = s["k"]
        if k == "par":
            for j, c in enumerate(s["calls"]):
                yield c, r + ["calls", j], "parcall", loopvars
        elif k == "cond":
            yield from iter_nodes(s["passed"], r + ["passed"], loopvars)
            if s.get("failed"):
                yield from iter_nodes(s["failed"], r + ["failed"], loopvars)
        elif k == "cloop":
            yield from iter_nodes(s["body"], r + ["body"], loopvars + (s["var"],))
        elif k == "wloop":
            yield from iter_nodes(s["body"], r + ["body"], loopvars)
        elif k == "ploop":
            if "body" in s:
                yield from iter_nodes(s["body"], r + ["body"], loopvars + (s["var"],))
            else:
                yield s["call"], r + ["call"], "ploopcall", loopvars + (s["var"],)


def iter_blocks(stmts, ref, loopvars=()):
    """yields (list_of_statements, ref, loopvars) for every statement block (not Parallel / parallel loops)"""
    yield stmts, ref, loopvars
    for i, s in enumerate(stmts):
        r = ref + [i]
        k = s["k"]
        if k == "cond":
            yield from iter_blocks(s["passed"], r + ["passed"], loopvars)
            if s.get("failed"):
                yield from iter_blocks(s["failed"], r + ["failed"], loopvars)
        elif k == "cloop":
            yield from iter_blocks(s["body"], r + ["body"], loopvars + (s["var"],))
        elif k == "wloop":
            yield from iter_blocks(s["body"], r + ["body"], loopvars)


def task_nodes(prog):
    for ti, t in enumerate(prog["tasks"]):
        for node, ref, role, lv in iter_nodes(t["body"], ["tasks", ti, "body"]):
            yield t, ti, node, ref, role, lv


def is_call_like(node):
    return node["k"] in ("svc", "call")


def task_vars(task):
    """variable -> type: In parameters plus every Out definition anywhere in the task (first one wins)"""
    env = {}
    for x, ty in task.get("ins", []):
        env.setdefault(x, ty)
    for node, _, _, _ in iter_nodes(task["body"], []):
        if is_call_like(node):
            for x, ty in node.get("outs", []):
                env.setdefault(x, ty)
    return env


def path_type(path, env, structs):
    """type of an attribute path, None if it does not resolve"""
    ty = env.get(path[0])
    for seg in path[1:]:
        if ty is None:
            return None
        elem, arr = parse_type(ty)
        if is_idx(seg):
            if arr is None:
                return None
            ty = elem
        else:
            if arr is not None or elem not in structs:
                return None
            ty = dict(structs[elem]).get(seg)
    return ty


def expr_paths(e, ref=()):
    """yields (path, ref_inside_expression) for every attribute path of an expression"""
    if isinstance(e, list):
        yield e, list(ref)
    elif isinstance(e, dict):
        if "unOp" in e:
            yield from expr_paths(e["value"], ref + ("value",))
        elif e.get("left") == "(" and e.get("right") == ")":
            yield from expr_paths(e["binOp"], ref + ("binOp",))
        else:
            yield from expr_paths(e["left"], ref + ("left",))
            yield from expr_paths(e["right"], ref + ("right",))


def get_ref(root, ref):
    node = root
    for key in ref:
        node = node[key]
    return node


def set_ref(root, ref, value):
    get_ref(root, ref[:-1])[ref[-1]] = value


def call_edges(prog):
    """task name -> set of directly called task names"""
    edges = {}
    for t in prog["tasks"]:
        es = edges.setdefault(t["name"], set())
        for node, _, _, _ in iter_nodes(t["body"], []):
            if node["k"] == "call":
                es.add(node["name"])
    return edges


def reachable(edges, a):
    seen, todo = set(), [a]
    while todo:
        for y in edges.get(todo.pop(), ()):
            if y not in seen:
                seen.add(y)
                todo.append(y)
    return seen


def used_names(prog):
    names = set(KEYWORDS)
    for s in prog["structs"]:
        names.add(s["name"])
        names.update(a for a, _ in s["attrs"])
    for t in prog["tasks"]:
        names.add(t["name"])
        names.update(task_vars(t))
        for node, _, _, _ in iter_nodes(t["body"], []):
            if "name" in node:
                names.add(node["name"])
            if "var" in node:
                names.add(node["var"])
    return names


def fresh_name(prog, base):
    names = used_names(prog)
    n = base
    i = 0
    while n in names:
        i += 1
        n = "%s_%d" % (base, i)
    return n


def strip_lines(x):
    """copy without the keys the printer adds"""
    if isinstance(x, dict):
        return {k: strip_lines(v) for k, v in x.items() if k not in ("line", "end_line", "e_line")}
    if isinstance(x, (list, tuple)):
        return [strip_lines(v) for v in x]
    return x


# ---------------------------------------------------------------------------------------------------
# printing

SYM_OPS = ("<", ">", "<=", ">=", "==", "!=", "+", "-", "*", "/")


def num_text(v):
    if isinstance(v, bool):
        return "true" if v else "false"
    if isinstance(v, int):
        return str(v)
    s = repr(float(v))
    if "e" in s or "E" in s or "n" in s:
        s = "%.6f" % v
    return s


def path_text(p):
    out = ""
    for seg in p:
        if is_idx(seg):
            out += seg
        elif out:
            out += "." + seg
        else:
            out = seg
    return out


def expr_text(e, tight=False):
    if isinstance(e, (bool, int, float)):
        return num_text(e)
    if isinstance(e, str):
        return e
    if isinstance(e, list):
        return path_text(e)
    if "unOp" in e:
        return e["unOp"] + expr_text(e["value"], tight)
    if e.get("left") == "(" and e.get("right") == ")":
        return "(" + expr_text(e["binOp"], tight) + ")"
    sep = "" if (tight and e["binOp"] in SYM_OPS) else " "
    left, right = expr_text(e["left"], tight), expr_text(e["right"], tight)
    if sep == "" and e["binOp"] == "-" and right.startswith("-"):
        sep = " "
    return left + sep + e["binOp"] + sep + right


def limit_text(lim):
    return str(lim) if isinstance(lim, int) else path_text(lim)


def json_lines(v, step):
    """pretty-printed JSON as a list of (relative indentation, text) lines"""
    if isinstance(v, dict):
        if not v:
            return [(0, "{}")]
        out = [(0, "{")]
        items = list(v.items())
        for n, (k, x) in enumerate(items):
            sub = json_lines(x, step)
            comma = "," if n < len(items) - 1 else ""
            out.append((step + sub[0][0], json.dumps(k) + ": " + sub[0][1] + (comma if len(sub) == 1 else "")))
            for m, (ind, txt) in enumerate(sub[1:]):
                last = m == len(sub) - 2
                out.append((step + ind, txt + (comma if last else "")))
        out.append((0, "}"))
        return out
    if isinstance(v, list):
        if not v or not any(isinstance(x, (dict, list)) for x in v):
            return [(0, json_flat(v))]
        out = [(0, "[")]
        for n, x in enumerate(v):
            sub = json_lines(x, step)
            comma = "," if n < len(v) - 1 else ""
            for m, (ind, txt) in enumerate(sub):
                out.append((step + ind, txt + (comma if m == len(sub) - 1 else "")))
        out.append((0, "]"))
        return out
    return [(0, json_flat(v))]


def json_flat(v):
    if isinstance(v, dict):
        return "{" + ", ".join(json.dumps(k) + ": " + json_flat(x) for k, x in v.items()) + "}"
    if isinstance(v, list):
        return "[" + ", ".join(json_flat(x) for x in v) + "]"
    if isinstance(v, str):
        return json.dumps(v)
    return num_text(v)


COMMENTS = ["# comment", "## section ##", "# Task x", "#End", "# In: Out", "#{ \"a\": 1 }", "# \"quoted\" text", "#  "]


class _Printer:
    def __init__(self, layout):
        lay = dict(layout or {})
        self.indent = int(lay.get("indent", 4))
        if not 1 <= self.indent <= 8:
            raise ValueError("indent must be in 1..8")
        self.vary = bool(lay.get("vary_indent", False))
        self.comments = bool(lay.get("comments", False))
        self.blank = bool(lay.get("blank_lines", False))
        self.trailing = bool(lay.get("trailing_blanks", False))
        self.crlf = bool(lay.get("crlf", False))
        self.nofinal = bool(lay.get("no_final_newline", False))
        self.lit_style = lay.get("literal_style", 1)
        self.json_style = lay.get("json_style")  # 0 compact, 1 pretty, None: per literal at random
        self.colon_style = lay.get("colon_style", 0)
        self.tight = bool(lay.get("tight_ops", False))
        self.same_line = bool(lay.get("same_line_after_literal", False))
        self.rng = random.Random(lay.get("seed", 0))
        self.lines = []

    # -- low level
    def w(self):
        return self.rng.randint(1, 8) if self.vary else self.indent

    def emit(self, col, text, in_json=False):
        rng = self.rng
        if self.blank and rng.random() < 0.25:
            for _ in range(rng.randint(1, 2)):
                self.lines.append(" " * rng.choice([0, 0, 1, col, col + 3, 11]))
        if self.comments and rng.random() < 0.2:
            self.lines.append(" " * rng.choice([0, col, col + 2, 17]) + rng.choice(COMMENTS))
        line = " " * col + text
        if self.comments and rng.random() < 0.2:
            line += rng.choice(["  ", " ", ""] if not in_json else ["  ", " "]) + rng.choice(COMMENTS)
        if self.trailing and rng.random() < 0.6:
            line += " " * rng.randint(1, 4)
        self.lines.append(line)
        return len(self.lines)

    def vdef(self, x, ty):
        return x + (": ", " : ", ":")[self.colon_style % 3] + ty

    # -- program
    def program(self, prog):
        order = prog.get("order")
        if order is None:
            order = [("struct", i) for i in range(len(prog["structs"]))] + \
                    [("task", i) for i in range(len(prog["tasks"]))]
        for kind, i in order:
            if kind == "struct":
                self.struct(prog["structs"][i])
            else:
                self.task(prog["tasks"][i])
            if not self.blank and self.rng.random() < 0.8:
                self.lines.append("")
        if self.comments and self.rng.random() < 0.5:
            self.lines.append(self.rng.choice(COMMENTS))
        nl = "\r\n" if self.crlf else "\n"
        while self.nofinal and self.lines and self.lines[-1].strip() == "":
            self.lines.pop()  # the text ends with the last character of the last definition/comment
        text = nl.join(self.lines)
        return text if self.nofinal else text + nl

    def struct(self, s):
        s["line"] = self.emit(0, "Struct " + s["name"])
        w = self.w()
        for a, t in s["attrs"]:
            self.emit(w, self.vdef(a, t))
        s["end_line"] = self.emit(0, "End")

    def task(self, t):
        t["line"] = self.emit(0, "Task " + t["name"])
        w = self.w()
        if t.get("ins"):
            self.emit(w, "In")
            w2 = w + self.w()
            for x, ty in t["ins"]:
                self.emit(w2, self.vdef(x, ty))
        self.block(t["body"], w)
        if t.get("outs"):
            self.emit(w, "Out")
            w2 = w + self.w()
            for x in t["outs"]:
                self.emit(w2, x)
        t["end_line"] = self.emit(0, "End")

    def block(self, stmts, col):
        for s in stmts:
            self.stmt(s, col)

    def literal(self, p, col):
        style = self.lit_style if self.lit_style in (0, 1, 2) else self.rng.randint(0, 2)
        pretty = self.json_style if self.json_style in (0, 1) else self.rng.randint(0, 1)
        step = self.w()
        if pretty:
            jl = json_lines(p["json"], step)
        else:
            jl = [(0, json_flat(p["json"]))]
        if style == 2:
            self.emit(col, p["lit"] + " " + jl[0][1])
            base = col
            rest = jl[1:]
        else:
            self.emit(col, p["lit"])
            base = col if style == 0 else col + self.w()
            self.emit(base, jl[0][1], in_json=len(jl) > 1)
            rest = jl[1:]
        for n, (ind, txt) in enumerate(rest):
            # inside the braces the lexer is in JSON mode: indentation is free there (but keep the last
            # line, whose end is outside the JSON mode, unremarkable)
            last = n == len(rest) - 1
            if self.rng.random() < 0.12:
                # a pasted JSON block: the line starts with a tab, or with blanks and a tab (free inside the braces)
                self.emit(self.rng.choice([0, 0, 2, base]), "\t" * self.rng.randint(1, 2) + txt, in_json=not last)
                continue
            self.emit(base + ind, txt, in_json=not last)

    def call_like(self, s, col):
        s["line"] = self.emit(col, s["name"])
        w = col + self.w()
        if s.get("ins"):
            self.emit(w, "In")
            w2 = w + self.w()
            skip = False
            for n, p in enumerate(s["ins"]):
                if skip:
                    skip = False
                    continue
                nxt = s["ins"][n + 1] if n + 1 < len(s["ins"]) else None
                if isinstance(p, str):
                    self.emit(w2, p)
                elif isinstance(p, list):
                    self.emit(w2, path_text(p))
                elif self.same_line and isinstance(nxt, (str, list)) and self.rng.random() < 0.6:
                    # the grammar allows the next parameter on the line of a struct literal: `Color {"name": "red"} cr`
                    self.emit(w2, p["lit"] + " " + json_flat(p["json"]) + " " + (nxt if isinstance(nxt, str) else path_text(nxt)))
                    skip = True
                else:
                    self.literal(p, w2)
        if s.get("outs"):
            self.emit(w, "Out")
            w2 = w + self.w()
            for x, ty in s["outs"]:
                self.emit(w2, self.vdef(x, ty))
        s["end_line"] = len(self.lines)

    def stmt(self, s, col):
        k = s["k"]
        if k in ("svc", "call"):
            self.call_like(s, col)
            return
        if k == "par":
            s["line"] = self.emit(col, "Parallel")
            w = col + self.w()
            for c in s["calls"]:
                self.call_like(c, w)
        elif k == "cond":
            s["line"] = self.emit(col, "Condition")
            s["e_line"] = self.emit(col + self.w(), expr_text(s["e"], self.tight))
            self.emit(col, "Passed")
            self.block(s["passed"], col + self.w())
            if s.get("failed"):
                self.emit(col, "Failed")
                self.block(s["failed"], col + self.w())
        elif k == "cloop":
            s["line"] = self.emit(col, "Loop %s To %s" % (s["var"], limit_text(s["limit"])))
            self.block(s["body"], col + self.w())
        elif k == "wloop":
            s["line"] = self.emit(col, "Loop While " + expr_text(s["e"], self.tight))
            self.block(s["body"], col + self.w())
        elif k == "ploop":
            s["line"] = self.emit(col, "Parallel Loop %s To %s" % (s["var"], limit_text(s["limit"])))
            self.block(ploop_stmts(s), col + self.w())
        else:
            raise ValueError(k)
        s["end_line"] = len(self.lines)


def print_program(prog, layout=None):
    """text of the program; sets "line"/"end_line" on every struct, task, statement and call dict"""
    return _Printer(layout).program(prog)


def random_layout(rng):
    """a random layout variant (all of them have to parse to the same model)"""
    return {
        "indent": rng.randint(1, 8),
        "vary_indent": rng.random() < 0.3,
        "comments": rng.random() < 0.5,
        "blank_lines": rng.random() < 0.5,
        "trailing_blanks": rng.random() < 0.4,
        "crlf": rng.random() < 0.3,
        "no_final_newline": rng.random() < 0.3,
        "literal_style": rng.choice([0, 1, 2, None]),
        "json_style": rng.choice([0, 1, None]),
        "colon_style": rng.randint(0, 2),
        "tight_ops": rng.random() < 0.3,
        "same_line_after_literal": rng.random() < 0.3,
        "seed": rng.randrange(1 << 30),
    }


# ---------------------------------------------------------------------------------------------------
# generation of well-formed programs

STRUCT_NAMES = ["Color", "SheetPart", "CuttingResult", "PaintingResult", "DryingResult", "Order", "Pallet",
                "Sensor_1", "Input_data", "Endmill", "Tooling", "Inspection", "Outcome", "Loop_state",
                "Passed_part", "P", "R2", "Quality", "Batch", "Task_info", "Parallelogram", "Whiley",
                "Structure", "Conditioner", "Truth", "Number_box", "ToDo", "Failed_run"]
ATTR_NAMES = ["width", "height", "parts_count", "sheet_parts", "name", "rgb", "id", "wetness", "ok", "done",
              "count", "numberOf", "inStock", "toDo", "label", "items", "trueColor", "endPos", "x1", "a_b",
              "size", "state", "tags", "flags", "weights", "origin", "inner", "child", "parts", "limit",
              "falsePositives", "stringy", "booleanFlag", "number_1", "i", "n", "b", "s"]
TASK_NAMES = ["cuttingTask", "paintingTask", "millingTask", "dryTask", "paint_and_cut", "subTask1", "task_2",
              "inspect", "toDoTask", "endTask", "inTask", "outTask", "loopTask", "numberTask", "t", "assemble",
              "whileTask", "trueTask", "parallelTask", "productionTask2", "structTask"]
VAR_NAMES = ["pr", "cr", "dr", "res", "part", "order", "inp", "outp", "sr", "data", "val", "item", "obj", "x",
             "y", "z", "cur", "nxt", "tmp", "toCut", "endResult", "inVar", "numberVar", "trueVal", "s1", "v_2",
             "r", "p", "q", "paint_color", "part_in"]
SVC_NAMES = ["Painting", "Cutting", "Drying", "Milling", "Inspect", "Transport", "Store", "Endcheck", "Input",
             "Outfeed", "Looping", "Trueing", "A", "B2", "Weld_1", "Task_service", "Structural", "Parallelize",
             "Whileaway", "Tooling", "PaintingAndCutting"]
LOOP_VARS = ["i", "j", "k", "idx", "n1", "m", "counter", "toIdx"]
STRINGS = ["green", "red", "a b", "", "x#1", "End", "true", "42", "part-7", "In: Out", "{a}", "[0]", "it's",
           "Task t", " lead", "trail ", "1.5", "a,b"]
NUM_LITS = [0, 1, 2, 3, 5, 10, 255, -1, -3, 0.5, 1.5, 2.25, 100, 7.0]

# optional constructs: (name, probability that a program may use it); allow=/avoid= force them on/off
FEATURES = (("string_eq", 0.0), ("prim_array_elem", 1.0), ("prim_params", 1.0), ("array_params", 1.0),
            ("redefinition", 1.0), ("prim_outs", 1.0), ("limit_zero", 1.0), ("expr_array_elem", 0.0))
MAX_LITERAL_WEIGHT = 24  # bound on the number of leaf values of a struct literal


class _Gen:
    def __init__(self, rng, size, avoid=(), allow=()):
        self.rng = rng
        self.size = max(0, int(size))
        self.on = set()
        for f, prob in FEATURES:
            # one draw per feature and program, whatever the switches are (keeps streams comparable)
            draw = rng.random() < prob
            if f not in avoid and (draw or f in allow):
                self.on.add(f)
        self.used = set()
        self.S = {}
        self._tpl = {}

    # -- structs ------------------------------------------------------------------------------------
    def rand_type(self, earlier):
        rng = self.rng
        elem = rng.choice(PRIMS) if not earlier or rng.random() < 0.55 else rng.choice(earlier)
        r = rng.random()
        if r < 0.6:
            return elem
        if r < 0.8:
            return elem + "[]"
        return "%s[%d]" % (elem, rng.randint(1, 3))

    def weight(self, ty):
        elem, arr = parse_type(ty)
        w = 1 if elem in PRIMS else sum(self.weight(t) for _, t in self.S[elem])
        return w if arr is None else w * (2 if arr < 0 else arr)

    def gen_structs(self):
        rng = self.rng
        n = rng.randint(3, 6)
        names = rng.sample(STRUCT_NAMES, n)
        structs = []
        for i, name in enumerate(names):
            earlier = names[:i]
            pool = rng.sample(ATTR_NAMES, 9)
            types = []
            if i == 0:
                types += ["number", "boolean", "string"]
                if rng.random() < 0.5:
                    types.append(rng.choice(["number", "number[]", "string[2]", "boolean[]", "number[3]"]))
            elif i == 1:
                types += [earlier[0], earlier[0] + "[]"]
                if rng.random() < 0.6:
                    types.append(rng.choice(PRIMS))
            elif i == 2:
                types += [rng.choice(PRIMS) + "[%d]" % rng.randint(1, 3),
                          rng.choice(earlier) + "[%d]" % rng.randint(1, 3)]
                if rng.random() < 0.6:
                    types.append(rng.choice(earlier))
            for _ in range(rng.randint(0 if types else 1, 3)):
                types.append(self.rand_type(earlier))
            # keep literals of this struct small: replace the heaviest struct-valued attributes
            while sum(self.weight(ty) for ty in types) > MAX_LITERAL_WEIGHT:
                heavy = max(range(len(types)), key=lambda n: self.weight(types[n]))
                elem, arr = parse_type(types[heavy])
                if elem in PRIMS:
                    types[heavy] = elem
                elif arr is not None and arr != 1 and self.weight(elem) * 1 <= MAX_LITERAL_WEIGHT // 2:
                    types[heavy] = elem + "[1]"
                elif arr is not None:
                    types[heavy] = rng.choice(PRIMS) + ("[]" if arr < 0 else "[%d]" % arr)
                else:
                    types[heavy] = rng.choice(PRIMS)
            rng.shuffle(types)
            attrs = [[pool.pop(), ty] for ty in types]
            structs.append({"name": name, "attrs": attrs})
            self.S[name] = attrs
        return structs

    def templates(self, sname, depth=3):
        """attribute paths below a value of struct sname: list of (segments, type); an index placeholder is
        the tuple ('idx', n, elem_is_primitive)"""
        key = (sname, depth)
        if key in self._tpl:
            return self._tpl[key]
        out = []
        for a, ty in self.S[sname]:
            elem, arr = parse_type(ty)
            out.append(([a], ty))
            heads = []
            if arr is None:
                heads.append([a])
            else:
                h = [a, ("idx", arr, elem in PRIMS)]
                out.append((h, elem))
                heads.append(h)
            if elem in self.S and depth > 0:
                for h in heads:
                    for segs, t in self.templates(elem, depth - 1):
                        out.append((h + segs, t))
        self._tpl[key] = out
        return out

    def cands(self, pred, in_expr=False):
        """(var, template segments, type) of all attribute paths rooted at a variable of the environment"""
        out = []
        for x, ty in self.env.items():
            elem, arr = parse_type(ty)
            if arr is not None or elem not in self.S:
                continue
            for segs, t in self.templates(elem):
                if not pred(t):
                    continue
                idxs = [s for s in segs if isinstance(s, tuple)]
                if idxs:
                    if in_expr and "expr_array_elem" not in self.on:
                        continue
                    if "prim_array_elem" not in self.on and any(s[2] for s in idxs):
                        continue
                out.append((x, segs, t))
        return out

    def inst(self, cand, lv, in_expr=False):
        rng = self.rng
        x, segs, _ = cand
        path = [x]
        for s in segs:
            if isinstance(s, tuple):
                if in_expr:
                    self.used.add("expr_array_elem")
                if s[2]:
                    self.used.add("prim_array_elem")
                if lv and rng.random() < 0.55:
                    path.append("[%s]" % rng.choice(lv))
                else:
                    path.append("[%d]" % (rng.randint(0, s[1] - 1) if s[1] > 0 else rng.randint(0, 2)))
            else:
                path.append(s)
        return path

    # -- literals -----------------------------------------------------------------------------------
    def gen_scalar(self, elem):
        rng = self.rng
        if elem == "number":
            return rng.choice(NUM_LITS)
        if elem == "string":
            return rng.choice(STRINGS)
        if elem == "boolean":
            return rng.random() < 0.5
        return {a: self.gen_value(t) for a, t in self.S[elem]}

    def gen_value(self, ty):
        elem, arr = parse_type(ty)
        if arr is None:
            return self.gen_scalar(elem)
        n = arr if arr >= 0 else self.rng.choice([0, 1, 1, 2, 2, 3])
        return [self.gen_scalar(elem) for _ in range(n)]

    def gen_lit(self, sname):
        return {"lit": sname, "json": self.gen_scalar(sname)}

    # -- parameters ---------------------------------------------------------------------------------
    def gen_arg(self, ty, lv):
        """a parameter of exactly type ty, or None"""
        rng = self.rng
        opts = []
        vs = [x for x, t in self.env.items() if t == ty]
        if vs:
            opts += ["var", "var"]
        ps = self.cands(lambda t: t == ty)
        if ps:
            opts += ["path", "path"]
        elem, arr = parse_type(ty)
        if arr is None and elem in self.S:
            opts += ["lit"]
        if not opts:
            return None
        kind = rng.choice(opts)
        if kind == "var":
            return rng.choice(vs)
        if kind == "path":
            return self.inst(rng.choice(ps), lv)
        return self.gen_lit(elem)

    def gen_any_param(self, lv):
        rng = self.rng
        opts = ["lit"]
        if self.env:
            opts += ["var", "var"]
        ps = self.cands(lambda t: True)
        if ps:
            opts += ["path", "path", "path"]
        kind = rng.choice(opts)
        if kind == "var":
            return rng.choice(list(self.env))
        if kind == "path":
            return self.inst(rng.choice(ps), lv)
        return self.gen_lit(rng.choice(list(self.S)))

    def out_name(self, ty, taken):
        rng = self.rng
        if "redefinition" in self.on and rng.random() < 0.3:
            same = [x for x, t in self.env.items() if t == ty and x not in self.in_names and x not in taken]
            if same:
                self.used.add("redefinition")
                return rng.choice(same)
        pool = [v for v in VAR_NAMES if v not in self.env and v not in taken and v not in self.reserved]
        if pool:
            return rng.choice(pool)
        self.counter += 1
        return "v%d" % self.counter

    def new_outs(self, types, taken):
        outs = []
        taken = set(taken)
        for ty in types:
            x = self.out_name(ty, taken)
            taken.add(x)
            outs.append([x, ty])
        return outs

    def out_type(self):
        rng = self.rng
        r = rng.random()
        if r < 0.75 or "prim_outs" not in self.on:
            return rng.choice(list(self.S))
        self.used.add("prim_outs")
        if r < 0.87:
            return rng.choice(self.attr_types or ["number"])
        return rng.choice(PRIMS)

    # -- expressions --------------------------------------------------------------------------------
    def epath(self, ty, lv):
        ps = self.cands(lambda t: t == ty, in_expr=True)
        if not ps:
            return None
        return self.inst(self.rng.choice(ps), lv, in_expr=True)

    @staticmethod
    def paren(e):
        return {"left": "(", "binOp": e, "right": ")"}

    def gen_num(self, depth, lv):
        rng = self.rng
        if depth <= 0 or rng.random() < 0.5:
            p = self.epath("number", lv) if rng.random() < 0.7 else None
            return p if p is not None else rng.choice(NUM_LITS)
        op = rng.choice(["+", "-", "*", "/"])
        left = self.gen_num(depth - 1, lv)
        right = self.gen_num(depth - 1, lv)
        if isinstance(left, dict):
            left = self.paren(left)
        if isinstance(right, dict):
            right = self.paren(right)
        if op == "/" and not isinstance(right, (list, dict)) and right == 0:
            right = 2
        return {"binOp": op, "left": left, "right": right}

    def gen_bool(self, depth, lv, top=False):
        rng = self.rng
        kinds = ["cmpnum"] * 3
        bpath = self.epath("boolean", lv)
        spath = self.epath("string", lv)
        if bpath is not None:
            kinds += ["path", "path", "booleq"]
        if spath is not None:
            kinds += ["cmpstr"]
            if "string_eq" in self.on:
                kinds += ["streq"]
        if depth > 0:
            kinds += ["not", "and", "or", "and", "or"]
        if rng.random() < (0.05 if top else 0.15):
            kinds += ["lit"]
        k = rng.choice(kinds)
        if k == "path":
            return bpath
        if k == "lit":
            return rng.random() < 0.5
        if k == "cmpnum":
            op = rng.choice(["<", ">", "<=", ">=", "==", "!="])
            sides = [self.gen_num(depth - 1, lv), self.gen_num(depth - 1, lv)]
            for n in (0, 1):
                # parenthesised terms (also a parenthesised single path, nested parentheses) as operands
                if isinstance(sides[n], dict) and rng.random() < 0.4:
                    sides[n] = self.paren(sides[n])
                    if rng.random() < 0.15:
                        sides[n] = self.paren(sides[n])
                elif isinstance(sides[n], list) and rng.random() < 0.1:
                    sides[n] = self.paren(sides[n])
            return {"binOp": op, "left": sides[0], "right": sides[1]}
        if k == "booleq":
            other = self.epath("boolean", lv) if rng.random() < 0.4 else (rng.random() < 0.5)
            sides = [bpath, other]
            rng.shuffle(sides)
            return {"binOp": rng.choice(["==", "!="]), "left": sides[0], "right": sides[1]}
        if k in ("cmpstr", "streq"):
            other = self.epath("string", lv) if rng.random() < 0.3 else '"%s"' % rng.choice(
                [s for s in STRINGS if '"' not in s])
            sides = [spath, other]
            if k == "cmpstr" and rng.random() < 0.25:
                # two string literals (the text of the comparison starts and ends with a quote)
                sides = ['"%s"' % rng.choice([s for s in STRINGS if '"' not in s]), other if not isinstance(other, list) else '"x"']
            for n in (0, 1):
                if rng.random() < 0.35:
                    sides[n] = self.paren(sides[n])  # parentheses keep the type, also of a string
            rng.shuffle(sides)
            if k == "streq":
                self.used.add("string_eq")
            op = rng.choice(["<", ">", "<=", ">="]) if k == "cmpstr" else rng.choice(["==", "!="])
            return {"binOp": op, "left": sides[0], "right": sides[1]}
        if k == "not":
            if bpath is not None and rng.random() < 0.5:
                return {"unOp": "!", "value": bpath}
            return {"unOp": "!", "value": self.paren(self.gen_bool(depth - 1, lv))}
        op = "And" if k == "and" else "Or"
        return {"binOp": op, "left": self.bool_operand(depth - 1, lv), "right": self.bool_operand(depth - 1, lv)}

    def bool_operand(self, depth, lv):
        e = self.gen_bool(depth, lv)
        if isinstance(e, dict) and "unOp" not in e and e.get("left") != "(":
            if e["binOp"] in ("And", "Or") or self.rng.random() < 0.5:
                return self.paren(e)
        return e

    def gen_cond_expr(self, lv):
        e = self.gen_bool(min(2, self.size), lv, top=True)
        if isinstance(e, dict) and e.get("left") != "(" and self.rng.random() < 0.1:
            e = self.paren(e)
        return e

    def gen_limit(self, lv):
        rng = self.rng
        if rng.random() < 0.5:
            p = self.epath("number", lv)
            if p is not None:
                return p
        lim = rng.choice([0, 1, 2, 2, 3, 4, 12])
        if lim == 0:
            if "limit_zero" not in self.on:
                return 1
            self.used.add("limit_zero")
        return lim

    # -- statements ---------------------------------------------------------------------------------
    def loop_var(self, lv):
        if lv and self.rng.random() < 0.15:
            return lv[-1]  # legal shadowing: the counting variable of the enclosing loop again
        pool = [v for v in LOOP_VARS if v not in lv]
        return self.rng.choice(pool[:4] if self.rng.random() < 0.7 else pool)

    def gen_svc(self, lv):
        rng = self.rng
        ins = [self.gen_any_param(lv) for _ in range(rng.choice([0, 1, 1, 2, 2, 3, 4]))]
        outs = self.new_outs([self.out_type() for _ in range(rng.choice([0, 0, 1, 1, 1, 2]))], ())
        return {"k": "svc", "name": rng.choice(SVC_NAMES), "ins": ins, "outs": outs}

    def gen_call(self, lv, taken=()):
        rng = self.rng
        names = list(self.callees)
        rng.shuffle(names)
        for name in names:
            sig = self.sigs[name]
            args = [self.gen_arg(ty, lv) for ty in sig["ins"]]
            if any(a is None for a in args):
                continue
            outs = self.new_outs(sig["outs"], taken)
            return {"k": "call", "name": name, "ins": args, "outs": outs}
        return None

    def define(self, call):
        for x, ty in call["outs"]:
            self.env.setdefault(x, ty)

    def gen_block(self, depth, lv):
        n = self.rng.choice([1, 1, 2, 2, 3])
        return [self.gen_stmt(depth, lv) for _ in range(n)]

    def gen_stmt(self, depth, lv):
        rng = self.rng
        self.budget -= 1
        kinds = ["svc"] * 3
        if self.callees:
            kinds += ["call", "call", "par", "ploop"]
        if depth > 0 and self.budget > 0:
            kinds += ["cond", "cond", "cloop", "cloop", "wloop"]
        k = rng.choice(kinds)
        if k == "call":
            c = self.gen_call(lv)
            if c is not None:
                self.define(c)
                return c
            k = "svc"
        if k == "par":
            calls, taken = [], set()
            for _ in range(rng.choice([1, 2, 2, 3])):
                c = self.gen_call(lv, taken)
                if c is not None:
                    calls.append(c)
                    taken.update(x for x, _ in c["outs"])
            if calls:
                for c in calls:
                    self.define(c)
                return {"k": "par", "calls": calls}
            k = "svc"
        if k == "ploop":
            v = self.loop_var(lv)
            lim = self.gen_limit(lv)
            c = self.gen_call(lv + (v,))
            if c is not None:
                self.define(c)
                return {"k": "ploop", "var": v, "limit": lim, "call": c}
            k = "svc"
        if k == "svc":
            s = self.gen_svc(lv)
            self.define(s)
            return s
        if k == "cond":
            e = self.gen_cond_expr(lv)
            passed = self.gen_block(depth - 1, lv)
            failed = self.gen_block(depth - 1, lv) if rng.random() < 0.5 else None
            return {"k": "cond", "e": e, "passed": passed, "failed": failed}
        if k == "cloop":
            v = self.loop_var(lv)
            lim = self.gen_limit(lv)
            return {"k": "cloop", "var": v, "limit": lim, "body": self.gen_block(depth - 1, lv + (v,))}
        if k == "wloop":
            e = self.gen_cond_expr(lv)
            return {"k": "wloop", "e": e, "body": self.gen_block(depth - 1, lv)}
        raise ValueError(k)

    # -- tasks --------------------------------------------------------------------------------------
    def in_type(self):
        rng = self.rng
        r = rng.random()
        if r < 0.15 and "prim_params" in self.on:
            self.used.add("prim_params")
            return rng.choice(PRIMS)
        if r < 0.35 and "array_params" in self.on and self.attr_types:
            self.used.add("array_params")
            return rng.choice(self.attr_types)
        return rng.choice(list(self.S))

    def program(self):
        rng = self.rng
        structs = self.gen_structs()
        self.attr_types = sorted({ty for attrs in self.S.values() for _, ty in attrs if parse_type(ty)[1] is not None})
        names = [START_TASK] + rng.sample([n for n in TASK_NAMES], rng.randint(2, 4))
        self.sigs = {}
        tasks = {}
        for idx in range(len(names) - 1, -1, -1):
            name = names[idx]
            self.callees = names[idx + 1:]
            ins = []
            if idx > 0:
                pnames = rng.sample(VAR_NAMES, 3)
                for _ in range(rng.choice([0, 1, 1, 2, 2, 3])):
                    ins.append([pnames.pop(), self.in_type()])
            self.env = dict((x, ty) for x, ty in ins)
            self.in_names = set(self.env)
            self.reserved = set(LOOP_VARS)
            self.counter = 0
            self.budget = 6 + 3 * self.size
            body = self.gen_block(self.size, ())
            outs = []
            if idx > 0 and self.env:
                n_out = min(len(self.env), rng.choice([0, 0, 1, 1, 2]))
                outs = rng.sample(list(self.env), n_out)
            self.sigs[name] = {"ins": [ty for _, ty in ins], "outs": [self.env[x] for x in outs]}
            tasks[name] = {"name": name, "ins": ins, "outs": outs, "body": body}
        order = list(names)
        if rng.random() < 0.5:
            rng.shuffle(order)
        return {"structs": structs, "tasks": [tasks[n] for n in order], "features": sorted(self.used)}


def gen_wf_program(rng, size=3, avoid=(), allow=()):
    """a random well-formed program (see the module docstring for the optional feature switches)"""
    return _Gen(rng, size, avoid, allow).program()


def permute_definitions(prog, rng):
    """copy with the top-level definitions in another order (structs and tasks interleaved via "order")"""
    p = copy.deepcopy(prog)
    old = p.get("order")
    if old is None:
        old = [["struct", i] for i in range(len(p["structs"]))] + [["task", i] for i in range(len(p["tasks"]))]
    old = [list(x) for x in old]
    new = list(old)
    for _ in range(10):
        rng.shuffle(new)
        if new != old:
            break
    p["order"] = new
    return p


# ---------------------------------------------------------------------------------------------------
# the fault catalogue (single-fault mutations)

FAULT_CLASSES = [
    "unknown_task_in_call", "unknown_task_in_parallel", "unknown_task_in_parallel_loop",
    "unknown_struct_in_literal",
    "unknown_type_in_struct_attr", "unknown_type_in_task_in", "unknown_type_in_call_out",
    "unknown_variable_as_input", "unknown_variable_in_path_root", "unknown_variable_in_task_out",
    "unknown_variable_in_expression", "unknown_variable_in_loop_limit",
    "unknown_attribute_in_path", "unknown_attribute_in_expression", "unknown_attribute_in_loop_limit",
    "literal_missing_attr", "literal_unknown_attr", "literal_ill_typed_attr", "literal_array_length",
    "literal_missing_attr_nested", "literal_unknown_attr_nested", "literal_ill_typed_attr_nested",
    "literal_array_length_nested",
    "duplicate_struct", "duplicate_task", "duplicate_attribute", "duplicate_in_param", "duplicate_out_param",
    "no_production_task",
    "undeclared_task_output",
    "call_arity_in", "call_arity_out",
    "call_arg_type_variable", "call_arg_type_path", "call_arg_type_literal", "call_out_type",
    "expr_ill_typed_operand", "expr_mixed_type_equality", "limit_ill_typed",
    "recursion_direct", "recursion_mutual",
    "parallel_loop_two_statements", "parallel_loop_service_body", "parallel_loop_compound_body",
]
# expr_mixed_type_equality: operands of different types under == / != (number == boolean, string != number ...);
# kept apart from expr_ill_typed_operand (operand of the wrong type for + - * / < > <= >= And Or !) because the
# docs say nothing about equality between different types.
# "returns an undeclared task output" and "unknown variable in the task's Out" are the same fault: the
# mutations are listed under unknown_variable_in_task_out AND (a second time) under undeclared_task_output.


def default_order(prog):
    if "order" in prog:
        return [list(x) for x in prog["order"]]
    return [["struct", i] for i in range(len(prog["structs"]))] + [["task", i] for i in range(len(prog["tasks"]))]


def _apply_op(p, a):
    op = a["op"]
    if op == "multi":
        for b in a["ops"]:
            _apply_op(p, b)
    elif op == "set":
        set_ref(p, a["ref"], copy.deepcopy(a["value"]))
    elif op == "insert":
        get_ref(p, a["ref"]).insert(a["index"], copy.deepcopy(a["value"]))
    elif op == "delete":
        del get_ref(p, a["ref"])[a["index"]]
    elif op == "del_key":
        del get_ref(p, a["ref"])[a["key"]]
    elif op == "set_key":
        d = get_ref(p, a["ref"])
        if a.get("first"):
            old = dict(d)
            d.clear()
            d[a["key"]] = copy.deepcopy(a["value"])
            d.update(old)
        else:
            d[a["key"]] = copy.deepcopy(a["value"])
    elif op == "insert_def":
        key = "structs" if a["kind"] == "struct" else "tasks"
        order = default_order(p)
        p[key].append(copy.deepcopy(a["value"]))
        order.insert(a["pos"], [a["kind"], len(p[key]) - 1])
        p["order"] = order
    elif op == "remove_task":
        order = [x for x in default_order(p) if x != ["task", a["index"]]]
        for x in order:
            if x[0] == "task" and x[1] > a["index"]:
                x[1] -= 1
        del p["tasks"][a["index"]]
        p["order"] = order
    elif op == "ploop_body":
        s = get_ref(p, a["ref"])
        s.pop("call", None)
        s["body"] = copy.deepcopy(a["body"])
    else:
        raise ValueError(op)


def apply_fault(prog, fault):
    """(mutated deep copy with exactly that fault, info)"""
    p = copy.deepcopy(prog)
    a = fault["apply"]
    _apply_op(p, a)
    target = a.get("target")
    info = {"cls": fault["cls"], "where": fault["where"], "whole_file": bool(a.get("whole_file")),
            "target": target, "alt_targets": a.get("alt_targets", []),
            # the top-level definition around the target (a weaker localisation than "target")
            "enclosing_def": list(target[:2]) if target else None}
    return p, info


def resolve_target(mutated_prog, info):
    """the dict of the smallest statement/definition containing the fault (None for whole-file faults)"""
    if info.get("whole_file") or info.get("target") is None:
        return None
    return get_ref(mutated_prog, info["target"])


def target_spans(mutated_prog, info):
    """acceptable line spans [(first, last), ...] after print_program(mutated_prog): the target's, plus those
    of equally good alternatives (e.g. the other one of two duplicate definitions); [(1, 1)] for the file"""
    if info.get("whole_file") or info.get("target") is None:
        return [(1, 1)]
    spans = []
    for ref in [info["target"]] + list(info.get("alt_targets", [])):
        node = get_ref(mutated_prog, ref)
        spans.append((node["line"], node["end_line"]))
    return spans


def enclosing_def_spans(mutated_prog, info):
    """like target_spans, for the top-level definitions (struct/task) around the target and its alternatives"""
    if info.get("whole_file") or info.get("target") is None:
        return [(1, 1)]
    spans = []
    for ref in [info["target"]] + list(info.get("alt_targets", [])):
        node = get_ref(mutated_prog, ref[:2])
        spans.append((node["line"], node["end_line"]))
    return spans


def describe(prog, ref):
    parts, node = [], prog
    for key in ref:
        node = node[key]
        if key in ("tasks", "structs") and not parts:
            continue
        if isinstance(node, dict) and ("k" in node or "attrs" in node or "body" in node):
            kind = node.get("k") or ("struct" if "attrs" in node else "task")
            parts.append("%s %s" % (kind, node.get("name", node.get("var", ""))))
        elif isinstance(key, int):
            parts[-1:] = [(parts[-1] if parts else "") + "[%d]" % key]
        else:
            parts.append(str(key))
    return " > ".join(x.strip() for x in parts)


def clearly_different(t1, t2):
    """types that differ under every reading of the docs (not just fixed vs dynamic array of the same element)"""
    e1, a1 = parse_type(t1)
    e2, a2 = parse_type(t2)
    return e1 != e2 or (a1 is None) != (a2 is None)


def build_value(ty, S, k=0):
    """a deterministic well-typed JSON value"""
    elem, arr = parse_type(ty)

    def scalar(n):
        if elem == "number":
            return [1, 2.5, 0, -4][(k + n) % 4]
        if elem == "string":
            return ["x", "ab c", ""][(k + n) % 3]
        if elem == "boolean":
            return (k + n) % 2 == 0
        return {a: build_value(t, S, k + n + 1) for a, t in S[elem]}

    if arr is None:
        return scalar(0)
    return [scalar(n) for n in range(arr if arr >= 0 else 1 + k % 2)]


def simple_paths(env, S, depth=3, with_index=True):
    """(path, type) for attribute paths rooted at struct variables of env (literal index 0 only)"""
    out = []

    def rec(path, sname, d):
        for a, ty in S[sname]:
            elem, arr = parse_type(ty)
            out.append((path + [a], ty))
            heads = [path + [a]]
            if arr is not None:
                if not with_index or arr == 0:
                    continue
                heads = [path + [a, "[0]"]]
                out.append((heads[0], elem))
            if elem in S and d > 0:
                rec(heads[0], elem, d - 1)

    for x in sorted(env):
        elem, arr = parse_type(env[x])
        if arr is None and elem in S:
            rec([x], elem, depth)
    return out


def make_arg(env, ty, S):
    """a well-typed parameter of type ty from the variables of a task, or None"""
    for x in sorted(env):
        if env[x] == ty:
            return x
    for p, t in simple_paths(env, S, 2):
        if t == ty:
            return p
    elem, arr = parse_type(ty)
    if arr is None and elem in S:
        return {"lit": elem, "json": build_value(elem, S)}
    return None


def expr_type(e, env, S):
    if isinstance(e, bool):
        return "boolean"
    if isinstance(e, (int, float)):
        return "number"
    if isinstance(e, str):
        return "string"
    if isinstance(e, list):
        t = path_type(e, env, S)
        return t if t in PRIMS else None
    if "unOp" in e:
        return "boolean"
    if e.get("left") == "(" and e.get("right") == ")":
        return expr_type(e["binOp"], env, S)
    return "number" if e["binOp"] in ("+", "-", "*", "/") else "boolean"


def operand_sites(e, ref, expected, top, env, S, ctx=None):
    """(ref inside the expression, expected type, is the whole expression, operator it is an operand of)
    for every leaf operand"""
    if not isinstance(e, dict):
        yield list(ref), expected or expr_type(e, env, S), top, ctx
    elif "unOp" in e:
        yield from operand_sites(e["value"], ref + ["value"], "boolean", False, env, S, "!")
    elif e.get("left") == "(" and e.get("right") == ")":
        yield from operand_sites(e["binOp"], ref + ["binOp"], expected, top, env, S, ctx)
    else:
        op = e["binOp"]
        if op in ("+", "-", "*", "/"):
            t = "number"
        elif op in ("And", "Or"):
            t = "boolean"
        else:
            t = expr_type(e["left"], env, S) or expr_type(e["right"], env, S)
        yield from operand_sites(e["left"], ref + ["left"], t, False, env, S, op)
        yield from operand_sites(e["right"], ref + ["right"], t, False, env, S, op)


def _json_sites(value, sname, ref, nested, S):
    """(dict, struct name, ref, nested?) for every JSON object of a literal that stands for a struct"""
    if not isinstance(value, dict) or sname not in S:
        return
    yield value, sname, ref, nested
    for a, ty in S[sname]:
        if a not in value:
            continue
        elem, arr = parse_type(ty)
        if elem not in S:
            continue
        if arr is None:
            yield from _json_sites(value[a], elem, ref + [a], True, S)
        elif isinstance(value[a], list):
            for n, x in enumerate(value[a]):
                yield from _json_sites(x, elem, ref + [a, n], True, S)


def _wrong_values(ty, cur, S):
    elem, arr = parse_type(ty)
    if arr is not None:
        outs = [3, {"unexpected": 1}]
        bad = {"number": "7", "string": 7, "boolean": 0}.get(elem, 5)
        if isinstance(cur, list):
            if cur:
                outs.append(cur[:-1] + [bad])
                if len(cur) > 1:
                    outs.append([bad] + cur[1:])
            elif arr < 0:
                outs.append([bad])
        return outs
    if elem == "number":
        return [True, "5"]
    if elem == "string":
        return [5, False]
    if elem == "boolean":
        return [1, "true"]
    return [7, "text", [cur]]


def _occurrences(task, x):
    n = sum(1 for y, _ in task.get("ins", []) if y == x) + sum(1 for y in task.get("outs", []) if y == x)
    for node, _, _, _ in iter_nodes(task["body"], []):
        if is_call_like(node):
            n += sum(1 for y, _ in node.get("outs", []) if y == x)
            for p in node.get("ins", []):
                if p == x or (isinstance(p, list) and p[0] == x):
                    n += 1
        if "e" in node:
            n += sum(1 for p, _ in expr_paths(node["e"]) if p[0] == x)
        if isinstance(node.get("limit"), list) and node["limit"][0] == x:
            n += 1
    return n


def _all_paths(prog):
    """(task, path) for every attribute path of the program"""
    for t in prog["tasks"]:
        for node, _, _, _ in iter_nodes(t["body"], []):
            if is_call_like(node):
                for p in node.get("ins", []):
                    if isinstance(p, list):
                        yield t, p
            if "e" in node:
                for p, _ in expr_paths(node["e"]):
                    yield t, p
            if isinstance(node.get("limit"), list):
                yield t, node["limit"]


def enumerate_faults(prog):
    """every applicable (fault class, position) of the program as a descriptor
    {"cls", "where", "apply": JSON-serialisable edit script incl. "target"}"""
    S = struct_table(prog)
    T = task_table(prog)
    out = []
    f_task = fresh_name(prog, "unknownTask")
    f_struct = fresh_name(prog, "UnknownStruct")
    f_type = fresh_name(prog, "UnknownType")
    f_var = fresh_name(prog, "unknownVar")
    f_attr = fresh_name(prog, "unknownAttr")
    order = default_order(prog)
    called = set()
    for es in call_edges(prog).values():
        called |= es

    def add(cls, where_ref, apply, note=""):
        where = describe(prog, where_ref) + ((" : " + note) if note else "")
        out.append({"cls": cls, "where": where, "apply": apply})

    def edit(op, target, **kw):
        d = {"op": op, "target": target}
        d.update(kw)
        return d

    # ---- definitions ------------------------------------------------------------------------------
    instantiated = set()
    todo = [p["lit"] for t in prog["tasks"] for node, _, _, _ in iter_nodes(t["body"], []) if is_call_like(node)
            for p in node.get("ins", []) if isinstance(p, dict)]
    while todo:
        s = todo.pop()
        if s in S and s not in instantiated:
            instantiated.add(s)
            todo += [parse_type(ty)[0] for _, ty in S[s]]
    touched = set()  # (struct, attribute) pairs some path goes through or ends at
    for t, p in _all_paths(prog):
        env = task_vars(t)
        ty = env.get(p[0])
        for seg in p[1:]:
            if ty is None:
                break
            elem, arr = parse_type(ty)
            if is_idx(seg):
                ty = elem
            else:
                touched.add((elem, seg))
                ty = dict(S.get(elem, [])).get(seg)

    suffixes = ["", "[]", "[2]"]
    positions = sorted({0, len(order) // 2, len(order)})
    for si, s in enumerate(prog["structs"]):
        sref = ["structs", si]
        opos = order.index(["struct", si])
        n = len(prog["structs"])
        for pos in sorted({opos + 1, len(order), 0}):
            later, earlier = (sref, ["structs", n]) if pos <= opos else (["structs", n], sref)
            add("duplicate_struct", sref, edit("insert_def", later, kind="struct", value=strip_lines(s), pos=pos,
                                                alt_targets=[earlier]), "copy at position %d" % pos)
        for ai, (a, ty) in enumerate(s["attrs"]):
            for idx in sorted({ai + 1, len(s["attrs"])}):
                add("duplicate_attribute", sref, edit("insert", sref, ref=sref + ["attrs"], index=idx, value=[a, ty]),
                    "attribute %s again at %d" % (a, idx))
            if s["name"] not in instantiated and (s["name"], a) not in touched:
                elem, arr = parse_type(ty)
                new = f_type + ty[len(elem):]
                add("unknown_type_in_struct_attr", sref, edit("set", sref, ref=sref + ["attrs", ai, 1], value=new),
                    "attribute %s: %s" % (a, new))
    for n, pos in enumerate(positions):
        new = {"name": fresh_name(prog, "ExtraStruct"), "attrs": [["first", "number"], ["second", f_type + suffixes[n % 3]]]}
        if n % 2:
            new["attrs"].reverse()
        add("unknown_type_in_struct_attr", [], edit("insert_def", ["structs", len(prog["structs"])], kind="struct",
                                                    value=new, pos=pos), "new struct at position %d" % pos)
    for ti, t in enumerate(prog["tasks"]):
        tref = ["tasks", ti]
        opos = order.index(["task", ti])
        n = len(prog["tasks"])
        for pos in sorted({opos + 1, len(order), 0}):
            later, earlier = (tref, ["tasks", n]) if pos <= opos else (["tasks", n], tref)
            add("duplicate_task", tref, edit("insert_def", later, kind="task", value=strip_lines(t), pos=pos,
                                             alt_targets=[earlier]), "copy at position %d" % pos)
        for j, (x, ty) in enumerate(t.get("ins", [])):
            for idx in sorted({j + 1, len(t["ins"])}):
                add("duplicate_in_param", tref, edit("insert", tref, ref=tref + ["ins"], index=idx, value=[x, ty]),
                    "parameter %s again at %d" % (x, idx))
            # also for a called task / a used parameter: the follow-up messages (the call sites of another task, the uses
            # in the body) are additional, the unknown type itself is still to be reported inside this definition
            elem, arr = parse_type(ty)
            add("unknown_type_in_task_in", tref, edit("set", tref, ref=tref + ["ins", j, 1], value=f_type + ty[len(elem):]),
                "parameter %s%s" % (x, "" if t["name"] not in called and _occurrences(t, x) == 1 else " (used)"))
        for j, x in enumerate(t.get("outs", [])):
            for cls in ("unknown_variable_in_task_out", "undeclared_task_output"):
                add(cls, tref, edit("set", tref, ref=tref + ["outs", j], value=f_var), "Out %d" % j)
        if t["name"] not in called:
            for cls in ("unknown_variable_in_task_out", "undeclared_task_output"):
                add(cls, tref, edit("insert", tref, ref=tref + ["outs"], index=len(t.get("outs", [])), value=f_var),
                    "additional Out")
    for n, pos in enumerate(positions):
        new = {"name": fresh_name(prog, "extraTask"), "ins": [["first", f_type + suffixes[n % 3]]], "outs": [],
               "body": [{"k": "svc", "name": "Extra_service", "ins": [], "outs": []}]}
        add("unknown_type_in_task_in", [], edit("insert_def", ["tasks", len(prog["tasks"])], kind="task", value=new,
                                                pos=pos), "new task at position %d" % pos)
    for ti, t in enumerate(prog["tasks"]):
        if t["name"] == START_TASK:
            for new in (fresh_name(prog, "productionTasks"), fresh_name(prog, "productiontask"),
                        fresh_name(prog, "production_task")):
                add("no_production_task", ["tasks", ti], edit("set", None, ref=["tasks", ti, "name"], value=new,
                                                              whole_file=True), "renamed to " + new)
            if len(prog["tasks"]) > 1 and START_TASK not in called and \
                    sum(1 for u in prog["tasks"] if u["name"] == START_TASK) == 1:
                add("no_production_task", ["tasks", ti], edit("remove_task", None, index=ti, whole_file=True), "removed")

    # ---- statements -------------------------------------------------------------------------------
    edges = call_edges(prog)
    for ti, t in enumerate(prog["tasks"]):
        env = task_vars(t)
        tref = ["tasks", ti]
        spaths = simple_paths(env, S, 3)
        # counting variables of any loop of this Task: they are no Task variables, inside the loop or behind it
        ctr_names = sorted({n["var"] for n, _r, _ro, _lv in iter_nodes(t["body"], tref + ["body"])
                            if n.get("k") in ("cloop", "ploop") and n.get("var") not in env})
        for node, ref, role, lv in iter_nodes(t["body"], tref + ["body"]):
            k = node["k"]
            if is_call_like(node):
                for cn in ctr_names:
                    where = "inside its loop" if cn in lv else "outside its loop"
                    if node.get("ins"):
                        add("unknown_variable_as_input", ref + ["ins", 0], edit("set", ref, ref=ref + ["ins", 0], value=cn),
                            "counting variable %s %s" % (cn, where))
                    if k == "svc":
                        add("unknown_variable_as_input", ref, edit("insert", ref, ref=ref + ["ins"],
                                                                   index=len(node.get("ins", [])), value=cn),
                            "new input: counting variable %s %s" % (cn, where))
            if k == "call":
                cls = {"stmt": "unknown_task_in_call", "parcall": "unknown_task_in_parallel",
                       "ploopcall": "unknown_task_in_parallel_loop"}[role]
                add(cls, ref, edit("set", ref, ref=ref + ["name"], value=f_task))
            if is_call_like(node):
                ins = node.get("ins", [])
                outs = node.get("outs", [])
                for j, p in enumerate(ins):
                    iref = ref + ["ins", j]
                    if isinstance(p, dict):
                        add("unknown_struct_in_literal", iref, edit("set", ref, ref=iref + ["lit"], value=f_struct))
                        for obj, sname, oref, nested in _json_sites(p["json"], p["lit"], iref + ["json"], False, S):
                            sfx = "_nested" if nested else ""
                            decl = dict(S[sname])
                            for key in obj:
                                add("literal_missing_attr" + sfx, oref, edit("del_key", ref, ref=oref, key=key), "without " + key)
                            for first in (False, True):
                                add("literal_unknown_attr" + sfx, oref, edit("set_key", ref, ref=oref, key=f_attr, value=1,
                                                                             first=first), "first" if first else "last")
                            for key, cur in obj.items():
                                if key not in decl:
                                    continue
                                for bad in _wrong_values(decl[key], cur, S):
                                    add("literal_ill_typed_attr" + sfx, oref, edit("set", ref, ref=oref + [key], value=bad),
                                        "%s = %s" % (key, json.dumps(bad)[:30]))
                                n = parse_type(decl[key])[1]
                                if n is not None and n >= 0 and isinstance(cur, list) and len(cur) == n:
                                    shorter = cur[:-1]
                                    longer = cur + [cur[-1] if cur else build_value(parse_type(decl[key])[0], S)]
                                    for bad in (shorter, longer):
                                        add("literal_array_length" + sfx, oref, edit("set", ref, ref=oref + [key], value=bad),
                                            "%s with %d elements instead of %d" % (key, len(bad), n))
                    elif isinstance(p, list):
                        add("unknown_variable_in_path_root", iref, edit("set", ref, ref=iref + [0], value=f_var))
                        for q in range(1, len(p)):
                            if not is_idx(p[q]):
                                add("unknown_attribute_in_path", iref, edit("set", ref, ref=iref + [q], value=f_attr),
                                    "segment %d" % q)
                    if k == "call":
                        add("unknown_variable_as_input", iref, edit("set", ref, ref=iref, value=f_var))
                if k == "svc":
                    for idx in sorted({0, len(ins)}):
                        add("unknown_variable_as_input", ref, edit("insert", ref, ref=ref + ["ins"], index=idx, value=f_var),
                            "new input %d" % idx)
                    add("unknown_variable_in_path_root", ref, edit("insert", ref, ref=ref + ["ins"], index=len(ins),
                                                                   value=[f_var, "first"]), "new input")
                    for n, idx in enumerate(sorted({0, len(outs)})):
                        add("unknown_type_in_call_out", ref, edit("insert", ref, ref=ref + ["outs"], index=idx,
                                                                  value=[fresh_name(prog, "extraOut"), f_type + suffixes[(n + len(ins)) % 3]]),
                            "new output %d" % idx)
                for j, (x, ty) in enumerate(outs):
                    for idx in sorted({j + 1, len(outs)}):
                        add("duplicate_out_param", ref, edit("insert", ref, ref=ref + ["outs"], index=idx, value=[x, ty]),
                            "output %s again at %d" % (x, idx))
            if k == "call" and node["name"] in T:
                callee = T[node["name"]]
                cins = callee.get("ins", [])
                cenv = task_vars(callee)
                ins, outs = node.get("ins", []), node.get("outs", [])
                extra = sorted(env)[0] if env else {"lit": sorted(S)[0], "json": build_value(sorted(S)[0], S)} if S else None
                for idx in sorted({0, len(ins) - 1} if ins else ()):
                    add("call_arity_in", ref, edit("delete", ref, ref=ref + ["ins"], index=idx), "without input %d" % idx)
                if extra is not None:
                    for idx in sorted({0, len(ins)}):
                        add("call_arity_in", ref, edit("insert", ref, ref=ref + ["ins"], index=idx, value=extra),
                            "additional input at %d" % idx)
                for j, (x, ty) in enumerate(outs):
                    if _occurrences(t, x) == 1 or sum(1 for y, _ in t.get("ins", []) if y == x) + sum(
                            1 for nd, _, _, _ in iter_nodes(t["body"], []) if is_call_like(nd)
                            for y, _ in nd.get("outs", []) if y == x) > 1:
                        add("call_arity_out", ref, edit("delete", ref, ref=ref + ["outs"], index=j), "without output %d" % j)
                for idx in sorted({0, len(outs)}):
                    add("call_arity_out", ref, edit("insert", ref, ref=ref + ["outs"], index=idx,
                                                    value=[fresh_name(prog, "extraOut"), sorted(S)[0] if S else "number"]),
                        "additional output at %d" % idx)
                if len(cins) == len(ins):
                    for j, (_, ety) in enumerate(cins):
                        iref = ref + ["ins", j]
                        vs = [x for x in sorted(env) if clearly_different(env[x], ety)]
                        for x in vs[:1] + vs[-1:] if len(vs) > 1 else vs:
                            add("call_arg_type_variable", iref, edit("set", ref, ref=iref, value=x), "%s: %s for %s" % (x, env[x], ety))
                        ps = [(p, ty) for p, ty in spaths if clearly_different(ty, ety)]
                        seen_types = set()
                        for p, ty in ps:
                            if ty not in seen_types and len(seen_types) < 3:
                                seen_types.add(ty)
                                add("call_arg_type_path", iref, edit("set", ref, ref=iref, value=p),
                                    "%s: %s for %s" % (path_text(p), ty, ety))
                        others = [s for s in sorted(S) if clearly_different(s, ety)]
                        for s in others[:2]:
                            add("call_arg_type_literal", iref, edit("set", ref, ref=iref, value={"lit": s, "json": build_value(s, S, j)}),
                                "%s literal for %s" % (s, ety))
                couts = callee.get("outs", [])
                if len(couts) == len(outs):
                    for j, (x, ty) in enumerate(outs):
                        if _occurrences(t, x) != 1:
                            continue
                        elem, arr = parse_type(ty)
                        news = [s for s in sorted(S) if s != elem][:1] + (["number"] if elem != "number" else ["boolean"])
                        news.append(elem + "[]" if arr is None else elem)
                        for new in news:
                            add("call_out_type", ref + ["outs", j], edit("set", ref, ref=ref + ["outs", j, 1], value=new),
                                "%s: %s instead of %s" % (x, new, ty))
            if k in ("cond", "wloop"):
                eref = ref + ["e"]
                paths = list(expr_paths(node["e"]))
                for p, pref in paths:
                    add("unknown_variable_in_expression", ref, edit("set", ref, ref=eref + pref + [0], value=f_var), path_text(p))
                    for q in range(1, len(p)):
                        if not is_idx(p[q]):
                            add("unknown_attribute_in_expression", ref, edit("set", ref, ref=eref + pref + [q], value=f_attr),
                                "%s segment %d" % (path_text(p), q))
                sites = list(operand_sites(node["e"], [], None, True, env, S))
                if not paths:
                    oref, ety = sites[0][:2]
                    attr = {"number": "amount", "boolean": "flag", "string": "text"}.get(ety, "amount")
                    add("unknown_variable_in_expression", ref, edit("set", ref, ref=eref + oref, value=[f_var, attr]), "literal operand")
                    svars = [x for x in sorted(env) if parse_type(env[x])[1] is None and parse_type(env[x])[0] in S]
                    if svars:
                        add("unknown_attribute_in_expression", ref, edit("set", ref, ref=eref + oref, value=[svars[0], f_attr]),
                            "literal operand")
                for oref, ety, top, ctx in sites:
                    if ety == "number":
                        bads = [True, '"abc"'] + [p for p, ty in spaths if ty == "boolean" and "[0]" not in p][:1] + \
                               [p for p, ty in spaths if ty == "string" and "[0]" not in p][:1]
                        # And / Or of two numbers in parentheses where a number stands: ill-typed on its own, wherever it is
                        nums = [p for p, ty in spaths if ty == "number" and "[0]" not in p][:2]
                        n1, n2 = (nums + [1.5, 2.5])[:2]
                        bads += [{"left": "(", "binOp": {"left": n1, "binOp": bop, "right": n2}, "right": ")"}
                                 for bop in ("And", "Or")]
                    elif ety == "boolean":
                        bads = ['"abc"'] + [p for p, ty in spaths if ty == "string" and "[0]" not in p][:1]
                        if not top:
                            bads += [3] + [p for p, ty in spaths if ty == "number" and "[0]" not in p][:1]
                    elif ety == "string":
                        bads = [1, True] + [p for p, ty in spaths if ty == "number" and "[0]" not in p][:1]
                    else:
                        bads = []
                    # a whole struct or a whole array as operand: ill-typed under every operator, == and != included
                    for bad in [p for p, ty in spaths if (parse_type(ty)[1] is not None or parse_type(ty)[0] in S) and "[0]" not in p][:2]:
                        if ety in ("number", "boolean", "string") and not (top and not oref):
                            add("expr_ill_typed_operand", ref, edit("set", ref, ref=eref + oref if oref else eref, value=bad),
                                "%s operand %s := %s (a struct / an array)" % (ety, ".".join(oref) or "whole", expr_text(bad)))
                    for bad in bads:
                        add("expr_mixed_type_equality" if ctx in ("==", "!=") else "expr_ill_typed_operand", ref, edit("set", ref, ref=eref + oref if oref else eref, value=bad),
                            "%s operand %s := %s" % (ety, ".".join(oref) or "whole", expr_text(bad)))
            if k in ("cloop", "ploop"):
                lim = node["limit"]
                if isinstance(lim, list):
                    add("unknown_variable_in_loop_limit", ref, edit("set", ref, ref=ref + ["limit", 0], value=f_var))
                    for q in range(1, len(lim)):
                        if not is_idx(lim[q]):
                            add("unknown_attribute_in_loop_limit", ref, edit("set", ref, ref=ref + ["limit", q], value=f_attr),
                                "segment %d" % q)
                else:
                    add("unknown_variable_in_loop_limit", ref, edit("set", ref, ref=ref + ["limit"], value=[f_var, "amount"]))
                    svars = [x for x in sorted(env) if parse_type(env[x])[1] is None and parse_type(env[x])[0] in S]
                    if svars:
                        add("unknown_attribute_in_loop_limit", ref, edit("set", ref, ref=ref + ["limit"], value=[svars[0], f_attr]))
                seen_types = set()
                for p, ty in spaths:
                    if "[0]" in p or ty == "number":
                        continue
                    elem, arr = parse_type(ty)
                    kind = "array" if arr is not None else ("struct" if elem in S else elem)
                    if kind not in seen_types:
                        seen_types.add(kind)
                        add("limit_ill_typed", ref, edit("set", ref, ref=ref + ["limit"], value=p), "%s: %s" % (path_text(p), ty))
            if k == "ploop" and "call" in node:
                c = strip_lines(node["call"])
                svc0 = {"k": "svc", "name": "Extra_service", "ins": [], "outs": []}
                svc = dict(c, k="svc", name=fresh_name(prog, c["name"][:1].upper() + c["name"][1:]))
                for body, note in (([c, svc0], "call + service"), ([svc0, c], "service + call"), ([c, copy.deepcopy(c)], "call twice")):
                    add("parallel_loop_two_statements", ref, edit("ploop_body", ref, ref=ref, body=body), note)
                add("parallel_loop_service_body", ref, edit("ploop_body", ref, ref=ref, body=[svc]), "service with the call's parameters")
                inner = fresh_name(prog, "inner")
                for body, note in (([{"k": "cloop", "var": inner, "limit": 1, "body": [c]}], "counting loop"),
                                   ([{"k": "cond", "e": {"binOp": "<", "left": 1, "right": 2}, "passed": [c], "failed": None}], "condition"),
                                   ([{"k": "par", "calls": [c]}], "Parallel block")):
                    add("parallel_loop_compound_body", ref, edit("ploop_body", ref, ref=ref, body=body), note)

        # ---- recursion: a call inserted into task t ------------------------------------------------
        callers = []  # tasks a that reach t (a ->+ t): a call t -> a closes a cycle
        for a in prog["tasks"]:
            if a["name"] != t["name"] and t["name"] in reachable(edges, a["name"]):
                callers.append(a)
        recs = [("recursion_direct", t, [x for x, _ in t.get("ins", [])])]
        for a in callers:
            args = [make_arg(env, ty, S) for _, ty in a.get("ins", [])]
            if all(x is not None for x in args):
                recs.append(("recursion_mutual", a, args))
        for cls, a, args in recs:
            aenv = task_vars(a)
            if any(x not in aenv for x in a.get("outs", [])):
                continue
            outs = [[fresh_name(prog, "recOut%d" % n), aenv[x]] for n, x in enumerate(a.get("outs", []))]
            c = {"k": "call", "name": a["name"], "ins": args, "outs": outs}
            for blk, bref, _ in iter_blocks(t["body"], tref + ["body"]):
                for idx in sorted({0, len(blk)}):
                    add(cls, bref, edit("insert", bref + [idx], ref=bref, index=idx, value=c),
                        "call of %s in %s at %d" % (a["name"], t["name"], idx))
            for node, ref, role, _ in iter_nodes(t["body"], tref + ["body"]):
                if node["k"] == "par":
                    idx = len(node["calls"])
                    add(cls, ref, edit("insert", ref + ["calls", idx], ref=ref + ["calls"], index=idx, value=c),
                        "call of %s in %s in Parallel" % (a["name"], t["name"]))
    return out


def sample_faults(prog, rng, k, faults=None):
    """k random (mutated_prog, info) pairs, of different fault classes as far as possible"""
    faults = enumerate_faults(prog) if faults is None else faults
    by_cls = {}
    for f in faults:
        by_cls.setdefault(f["cls"], []).append(f)
    classes = sorted(by_cls)
    rng.shuffle(classes)
    res = []
    n = 0
    while classes and len(res) < k:
        cls = classes[n % len(classes)]
        n += 1
        res.append(apply_fault(prog, rng.choice(by_cls[cls])))
    return res


if __name__ == "__main__":
    import sys

    _rng = random.Random(int(sys.argv[1]) if len(sys.argv) > 1 else 1)
    _p = gen_wf_program(_rng, int(sys.argv[2]) if len(sys.argv) > 2 else 3)
    print(print_program(_p, random_layout(_rng) if len(sys.argv) > 3 else None))
