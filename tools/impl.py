"""Drives the real pfdl Scheduler (from /repo's working tree) under a scripted execution engine and
records everything the properties talk about.  Import only inside a process whose cwd is a scratch
directory (PetriNetGenerator.__init__ creates ./temp) and with PFDL_REPO on sys.path[0]."""
import contextlib
import io
import json
import os
import sys
import uuid as uuidlib
from fractions import Fraction

REPO = os.environ.get("PFDL_REPO", "/repo")
if REPO not in sys.path:
    sys.path.insert(0, REPO)

from pfdl_scheduler.scheduler import Scheduler, Event  # noqa: E402
from pfdl_scheduler.model.struct import Struct  # noqa: E402
from pfdl_scheduler.model.array import Array  # noqa: E402
from pfdl_scheduler.api.observer_api import Observer, NotificationType  # noqa: E402

KINDS = ("ts", "ss", "sf", "tf")

# creation order of the places of every net (the harness's own wrapper around the module-level helper of the
# generator; nothing in /repo is changed): kept on the net object itself


def _wrap_create_place():
    import pfdl_scheduler.petri_net.generator as gen
    if getattr(gen.create_place, "_verif_wrapped", False):
        return
    orig = gen.create_place

    def create_place(name, net, node):
        uid = orig(name, net, node)
        try:
            net._verif_created.append(uid)
        except AttributeError:
            net._verif_created = [uid]
        return uid

    create_place._verif_wrapped = True
    gen.create_place = create_place


_wrap_create_place()


# ---------------------------------------------------------------------------------------------
# values


def num_py(q):
    """[num, den, isfloat] -> python number"""
    n, d = q[0], q[1]
    isf = len(q) > 2 and q[2]
    if d == 1 and not isf:
        return n
    return n / d


def val_py(v, name=""):
    """value JSON -> python value as an execution engine would hold it"""
    if isinstance(v, dict):
        if "q" in v:
            return num_py(v["q"])
        return Struct(name=name, attributes={k: val_py(x) for k, x in v.items()})
    if isinstance(v, list):
        return [val_py(x) for x in v]
    return v  # bool / str


def canon_param(p):
    if isinstance(p, str):
        return ["v", p]
    if isinstance(p, list):
        return ["p", [str(x) for x in p]]
    if isinstance(p, Struct):
        return ["s", p.name, canon_lit(p)]
    return ["?", repr(p)]


def canon_lit(x):
    if isinstance(x, Struct):
        return {k: canon_lit(v) for k, v in sorted(x.attributes.items())}
    if isinstance(x, Array):
        return [canon_lit(v) for v in x.values]
    if isinstance(x, bool):
        return x
    if isinstance(x, (int, float)):
        f = Fraction(x)
        return {"q": [f.numerator, f.denominator]}
    return x


# ---------------------------------------------------------------------------------------------


class RecObserver(Observer):
    def __init__(self, rec, idx):
        self.rec = rec
        self.idx = idx
        self.received = 0

    def __len__(self):
        # observer 2 is a collection of what it has received (empty when it is attached): an observer is an observer
        # whether or not it is "truthy"
        if self.idx == 2:
            return self.received
        return 1

    def update(self, notification_type, data):
        self.received += 1
        if notification_type == NotificationType.LOG_EVENT:
            text, level, flag = data
            self.rec.ev(["UPD", self.idx, "LOG", text, bool(flag)])
        elif notification_type == NotificationType.PETRI_NET:
            self.rec.ev(["UPD", self.idx, "NET", data])
            sid = getattr(self.rec.s, "scheduler_uuid", None)
            if data != sid:
                # the notice must carry the scheduler's id (C17)
                self.rec.ev(["UPD", self.idx, "NETID", "%r instead of %r" % (data, sid)])
        else:
            self.rec.ev(["UPD", self.idx, "OTHER", str(notification_type)])
        hook = self.rec.update_hook
        if hook:
            hook(self, notification_type, data)


# one function object that an application registers at several schedulers (e.g. one logging function)
SHARED_TARGET = [None]


def _shared(kind):
    def shared_listener(api):
        run = SHARED_TARGET[0]
        if run is not None:
            run.notified(kind, 9, api)
        return {"handled": True}
    shared_listener.__name__ = "shared_listener_" + kind
    return shared_listener


SHARED = {k: _shared(k) for k in ("ts", "ss", "sf", "tf")}


class _Listener:
    def __init__(self, run, kind, j):
        self.run, self.kind, self.j = run, kind, j

    def on_notification(self, api):
        self.run.notified(self.kind, self.j, api)
        # the callback type is Callable[[...], Any]: applications may return something (a ticket, the id, True)
        return [None, api.uuid or "ticket", True][self.j % 3]


class Run:
    """One scheduler instance under a scripted EE.

    answers: callable(name, ctx_api) -> value JSON  (recorded in self.answers)
    imm: callable(k) -> bool   complete the k-th announced service from inside the EE's
         service-started listener
    mutate: hostile EE - mutate every delivered parameter list after recording it
    """

    def __init__(self, program, ids="test", draw=False, sched_uuid="", answers=None, imm=None,
                 mutate=False, as_file=None, imm_other=None, imm_sf=None, reuse_event=None, reseed=False):
        self.calls = []  # one record per external API call
        self.cur = None  # event list of the call in progress
        self.answers = []
        self.answer_fn = answers
        self.imm = imm or (lambda k: False)
        # cross re-entrancy: from inside the k-th announcement report the oldest *other* outstanding service
        self.imm_other = imm_other or (lambda k: False)
        # completion of another outstanding service reported from inside the k-th service-FINISHED notification
        self.imm_sf = imm_sf or (lambda k: False)
        self.n_sf = 0
        # the application re-uses ONE Event object for all its reports: "replace" assigns a new data dict each time,
        # "mutate" changes the dict in place
        self.reuse_event = reuse_event
        self._event = None
        self.mutate = mutate
        self.kept_lists = {}
        self.reseed = reseed
        self.in_progress = []  # announcement indices whose completion is being delivered right now (a stack)
        self.announced = []  # service ids in announcement order
        self.pending = []  # indices into announced, not completed yet
        self.fns = {}  # (kind, j) -> function object
        self.observers = {}
        self.update_hook = None
        self.ctor_exc = None
        self.ctor_out = ""
        self.prelude = []
        self.not_running = None
        buf = io.StringIO()
        prog_arg = program
        if as_file:
            with open(as_file, "w") as f:
                f.write(program)
            prog_arg = as_file
        try:
            with contextlib.redirect_stdout(buf):
                self.s = Scheduler(prog_arg, ids == "test", draw, sched_uuid)
        except RecursionError:
            self.s = None
            self.ctor_exc = "RecursionError"
        except Exception as ex:  # noqa: BLE001
            self.s = None
            self.ctor_exc = type(ex).__name__
        self.ctor_out = buf.getvalue()
        self.valid = bool(self.s and self.s.pfdl_file_valid)
        self.var_gen = 0
        self.stale_var = []
        self.pidx = {}
        self.net0 = None
        if self.s is not None:
            self.s.register_variable_access_function(self.access_function(0))
            try:
                self.net0 = self.net_structure()
            except Exception as ex:  # noqa: BLE001
                self.net0 = {"error": type(ex).__name__ + ": " + str(ex)[:200]}

    # recording ---------------------------------------------------------------------------
    def ev(self, e):
        (self.cur if self.cur is not None else self.prelude).append(e)

    def observe_running(self, what):
        """the running flag as an application sees it from inside a callback"""
        if self.s is not None and self.s.running is not True and self.not_running is not None and len(self.not_running) < 3:
            self.not_running.append(what)

    def access_function(self, gen):
        """the variable access function of generation `gen` (a new function object per registration)"""
        def access(name, ctx):
            if gen != self.var_gen and len(self.stale_var) < 3:
                self.stale_var.append("variable %r is asked from the access function registered first although another one has been registered since" % name)
            return self.var(name, ctx)
        return access

    def reregister_access_function(self):
        self.var_gen += 1
        return self._call({"op": "revar"}, lambda: self.s.register_variable_access_function(self.access_function(self.var_gen)))

    def var(self, name, ctx):
        self.observe_running("variable query %r" % name)
        if self.answer_fn is None:
            v = None
        else:
            v = self.answer_fn(name, ctx)
        self.answers.append(v)
        self.ev(["VAR", name, ctx.uuid if ctx is not None else None, ctx.task.name if ctx is not None else None])
        return val_py(v, name) if v is not None else None

    def listener(self, kind, j):
        """listeners are bound methods: every call returns a new, equal method object (as applications register them)"""
        if j == 9:
            return SHARED[kind]
        key = (kind, j)
        if key not in self.fns:
            self.fns[key] = _Listener(self, kind, j)
        return self.fns[key].on_notification

    def notified(self, _kind, _j, api):
        if self.mutate == "late" and _j == 0:
            # an engine that keeps the lists it was given and clears them when the next notification OF THAT KIND
            # arrives (the previous iteration's list, after the next iteration's list has been prepared)
            for lst in self.kept_lists.get(_kind, []):
                try:
                    lst.clear()
                except Exception:  # noqa: BLE001
                    pass
            self.kept_lists[_kind] = []
        if self.reseed and _j == 0:
            import random as _random
            _random.seed(20240917)  # an application that seeds the global generator in its callbacks
        self.observe_running("%s notification of %s (listener %d)" % (_kind, api.task.name if _kind[0] == "t" else api.service.name, _j))
        if _kind[0] == "t":
            name = api.task.name
            line = api.task_call.context.start.line if api.task_call else api.task.context.start.line
        else:
            name = api.service.name
            line = api.service.context.start.line
        ctx = api.task_context.uuid if api.task_context else None
        # "with the same argument": two listeners invoked directly one after the other for the same notification must be
        # handed the same OBJECT, not equal copies (what one writes on it the next one sees)
        buf = self.cur if self.cur is not None else self.prelude
        key = (_kind, name, line, api.uuid)
        li = getattr(self, "_last_inv", None)
        if li and li[0] == key and li[1] is buf and li[2] == len(buf) and li[4] != _j and li[3] != id(api):
            self.ev(["IDENT", _kind, _j, name, line])
        self.ev(["INV", _kind, _j, name, line, api.uuid, ctx, [canon_param(p) for p in api.input_parameters]])
        self._last_inv = (key, buf, len(buf), id(api), _j)
        self._keep_alive = api   # the id stays unique while it is remembered
        if _j == 0 and _kind == "ss":
            k = len(self.announced)
            self.announced.append(api.uuid)
            self.pending.append(k)
            if self.mutate == "late":
                self.kept_lists.setdefault(_kind, []).append(api.input_parameters)
            elif self.mutate:
                self.hostile(api)
            if self.imm_other(k):
                inprog = [j for j in self.in_progress if j != k]
                if inprog and k % 2 == 0:
                    # a completion that is being delivered right now is reported again: must be refused
                    self.complete(inprog[-1], nested=True)
                others = [j for j in self.pending if j != k and j not in self.in_progress]
                if others:
                    self.complete(others[0], nested=True)
            if self.imm(k):
                self.complete(k, nested=True)
        elif _j == 0 and _kind == "sf":
            k = self.n_sf
            self.n_sf += 1
            if self.imm_sf(k):
                others = [j for j in self.pending if j not in self.in_progress]
                if others:
                    self.complete(others[0], nested=True)
            if self.mutate and self.mutate != "late":
                self.hostile(api)
        elif _j == 0 and self.mutate == "late":
            if _kind in ("ts", "ss"):
                self.kept_lists.setdefault(_kind, []).append(api.input_parameters)
        elif _j == 0 and self.mutate:
            self.hostile(api)

    def hostile(self, api):
        ps = api.input_parameters
        for p in ps:
            if isinstance(p, list):
                for i in range(len(p)):
                    p[i] = "zz"
                p.append("junk")
            elif isinstance(p, Struct):
                self._spoil(p)
        ps.clear()

    def _spoil(self, st, depth=0):
        """everything reachable from a delivered struct literal: nested structs, the elements of its arrays"""
        for k in list(st.attributes):
            v = st.attributes[k]
            if depth < 4:
                if isinstance(v, Struct):
                    self._spoil(v, depth + 1)
                elif isinstance(v, Array):
                    for el in v.values:
                        if isinstance(el, Struct):
                            self._spoil(el, depth + 1)
                    try:
                        v.values.append("junk")
                    except Exception:  # noqa: BLE001
                        pass
            st.attributes[k] = "mutated"
        st.attributes["extra"] = 1
        st.name = "Mutated"

    # API calls ------------------------------------------------------------------------------
    def _call(self, op, fn):
        rec = {"op": op, "out": [], "ret": None, "exc": None}
        outer = self.cur
        self.cur = rec["out"]
        self.not_running = rec["not_running_in"] = []
        buf = io.StringIO()
        try:
            with contextlib.redirect_stdout(buf):
                rec["ret"] = fn()
        except RecursionError:
            rec["exc"] = "RecursionError"
        except Exception as ex:  # noqa: BLE001
            rec["exc"] = type(ex).__name__
            rec["exc_msg"] = str(ex)[:200]
        self.cur = outer
        rec["stdout"] = buf.getvalue()[:300]
        if self.stale_var:
            rec["stale_var"] = list(self.stale_var)
        rec.update(self.snapshot())
        self.calls.append(rec)
        return rec

    def snapshot(self):
        s = self.s
        if s is None:
            return {}
        aw = []
        for e in s.awaited_events:
            aw.append([e.event_type, json.dumps(e.data, sort_keys=True, default=str)])
        snap = {"running": s.running, "awaited": aw}
        if s.petri_net_logic is not None:
            try:
                m = s.petri_net_logic.petri_net.get_marking()
                fin = s.petri_net_generator.task_finished_uuid
                snap["marked"] = sum(len(m[p]) for p in m)
                snap["final_marking"] = bool(len(m) == 1 and fin in m and len(m[fin]) == 1)
                # the marking by creation index of the places (net layer of the model)
                idx = self.place_index()
                snap["marking"] = sorted([idx[p], len(m[p])] for p in m if p in idx)
            except Exception as ex:  # noqa: BLE001
                snap["marking_exc"] = type(ex).__name__
        return snap

    # the net as a structure ---------------------------------------------------------------
    def place_index(self):
        """place name -> creation index; places keep their index when they are removed from the net (also those
        created and removed within one call: every create_place of this net is recorded)"""
        net = self.s.petri_net_logic.petri_net
        for name in getattr(net, "_verif_created", []):
            if name not in self.pidx:
                self.pidx[name] = len(self.pidx)
        for name in net._place:
            if name not in self.pidx:
                self.pidx[name] = len(self.pidx)
        return self.pidx

    def net_structure(self):
        """places / transitions in creation order with arcs (as place indices) and callbacks"""
        s = self.s
        if s is None or s.petri_net_logic is None:
            return None
        net = s.petri_net_logic.petri_net
        idx = self.place_index()
        tidx = {name: i for i, name in enumerate(net._trans)}
        m = net.get_marking()
        places = [[False, 0] for _ in range(len(idx))]
        for name, i in idx.items():
            if net.has_place(name):
                places[i] = [True, len(m[name]) if name in m else 0]
        tdict = s.petri_net_generator.transition_dict
        trans = []
        for name in net._trans:
            t = net.transition(name)
            cbs = []
            for cb in tdict.get(name, []):
                fn = cb.func.__name__[3:]
                a = cb.args
                if fn in ("task_started", "task_finished"):
                    cbs.append([fn, a[0].task.name, bool(a[0].in_loop)])
                elif fn in ("service_started", "service_finished"):
                    cbs.append([fn, a[0].service.name, bool(a[0].in_loop)])
                elif fn in ("condition_started", "while_loop_started"):
                    cbs.append([fn, idx.get(a[1], -1), idx.get(a[2], -1)])
                elif fn == "counting_loop_started":
                    cbs.append([fn, a[0].context.start.line if a[0].context else -1, idx.get(a[1], -1), idx.get(a[2], -1)])
                elif fn == "parallel_loop_started":
                    cbs.append([fn, idx.get(a[3], -1), tidx.get(a[4], -1), tidx.get(a[5], -1)])
                else:
                    cbs.append([fn])
            trans.append({"ins": sorted(idx[p.name] for p, _ in t.input()),
                          "outs": sorted(idx[p.name] for p, _ in t.output()), "cbs": cbs})
        return {"places": places, "trans": trans, "start": idx.get(s.petri_net_generator.task_started_uuid, -1),
                "final": idx.get(s.petri_net_generator.task_finished_uuid, -1)}

    def start(self):
        return self._call({"op": "start"}, lambda: self.s.start())

    def register(self, kind, j):
        f = self.listener(kind, j)
        reg = {
            "ts": self.s.register_callback_task_started,
            "tf": self.s.register_callback_task_finished,
            "ss": self.s.register_callback_service_started,
            "sf": self.s.register_callback_service_finished,
        }[kind]
        return self._call({"op": "reg", "kind": kind, "fn": j}, lambda: reg(f))

    def attach(self, k):
        o = self.observers.setdefault(k, RecObserver(self, k))
        return self._call({"op": "attach", "o": k}, lambda: self.s.attach(o))

    def detach(self, k):
        o = self.observers.setdefault(k, RecObserver(self, k))
        return self._call({"op": "detach", "o": k}, lambda: self.s.detach(o))

    def complete(self, k, nested=False):
        """report the k-th announced service as finished"""
        uid = self.announced[k]
        if self.reuse_event and not nested:
            if self._event is None:
                self._event = Event("service_finished", {"service_uuid": uid})
            elif self.reuse_event == "mutate":
                self._event.data["service_uuid"] = uid
            else:
                self._event.data = {"service_uuid": uid}
            ev = self._event
        else:
            ev = Event("service_finished", {"service_uuid": uid})
        self.in_progress.append(k)
        try:
            if nested:
                self.ev(["FIRE", uid])
                r = self.s.fire_event(ev)
                self.ev(["RET", uid, r])
                if r and k in self.pending:
                    self.pending.remove(k)
                return r
            rec = self._call({"op": "finish", "n": k}, lambda: self.s.fire_event(ev))
            if rec["ret"] and k in self.pending:
                self.pending.remove(k)
            return rec
        finally:
            self.in_progress.pop()

    def fire_raw(self, op, event):
        return self._call(op, lambda: self.s.fire_event(event))

    def junk(self, spec):
        """junk events, described symbolically (see gen_hist)"""
        j = spec["junk"]
        if j == "dup":  # completion of an announced service (whether pending or not is decided by the caller)
            uid = self.announced[spec["n"]]
            ev = Event("service_finished", {"service_uuid": uid})
        elif j == "unknown":
            ev = Event("service_finished", {"service_uuid": spec.get("id") or str(uuidlib.uuid4())})
        elif j == "start_event":
            ev = Event("start_production_task", {})
        elif j == "type":
            ev = Event(spec["t"], spec.get("data", {}))
        elif j == "nodata":
            ev = Event("service_finished", None)
        elif j == "emptydata":
            ev = Event("service_finished", {})
        elif j == "wrongkey":
            ev = Event("service_finished", {"uuid": self.announced[spec["n"]] if self.announced else "x"})
        elif j == "fromjson":
            uid = self.announced[spec["n"]]
            ev = Event.from_json(json.dumps({"event_type": "service_finished", "data": {"service_uuid": uid}}))
        elif j == "pairs":
            # no dict but a sequence of (key, value) pairs naming an announced (mostly outstanding) service
            uid = self.announced[spec["n"]]
            ev = Event("service_finished", [("service_uuid", uid)] if spec.get("form") != "items" else {"service_uuid": uid}.items())
        elif j == "pairsjson":
            uid = self.announced[spec["n"]]
            ev = Event.from_json(json.dumps({"event_type": "service_finished", "data": [["service_uuid", uid]]}))
            if ev is None:
                ev = Event("service_finished", [["service_uuid", uid]])
        elif j == "default":
            ev = Event()
        else:
            raise ValueError(j)
        return self.fire_raw(dict(spec, op="junk"), ev)
