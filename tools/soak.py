"""Run every registered check with several seeds on the unchanged tree; any exit != 0 is a false alarm to investigate.

  python3 tools/soak.py <tier> <seed> [<seed> ...]     results: soak_<tier>.log (not committed)"""
import json
import os
import subprocess
import sys
import time

VERIF = os.path.abspath(os.path.join(os.path.dirname(os.path.abspath(__file__)), ".."))


def main():
    tier = sys.argv[1]
    seeds = sys.argv[2:]
    with open(os.path.join(VERIF, "MANIFEST.json")) as f:
        checks = [c["property_id"] for c in json.load(f)["checks"]]
    bad = []
    with open(os.path.join(VERIF, "replays", "soak_%s.log" % tier), "a") as log:
        for seed in seeds:
            for p in checks:
                t0 = time.time()
                env = dict(os.environ, VERIF_SEED=seed)
                r = subprocess.run(["./check", p, tier], cwd=VERIF, env=env, capture_output=True, text=True)
                line = "%s seed=%s exit=%d %.0fs %s" % (p, seed, r.returncode, time.time() - t0, r.stdout.strip().splitlines()[-1] if r.stdout.strip() else r.stderr[-200:])
                print(line, flush=True)
                log.write(line + "\n")
                if r.returncode != 0:
                    bad.append(line)
                    log.write(r.stdout + r.stderr + "\n")
    print("non-zero:", len(bad))
    for b in bad:
        print("  ", b)


if __name__ == "__main__":
    main()
