"""Tie of the Lean statement-level parser (PfdlModel/Syntax.lean) to the implementation:

  syntax_tokens(text)   the token stream PFDLLexer + DenterHelper deliver for a text, in the model's token
                        alphabet (a struct literal as one token with its text, the tokens of an expression
                        grouped into operands as the `expression` rule sees them, operands as numbered leaves)
  process_syntax(proc)  what PFDLTreeVisitor built from the same text, in the output format of the model
                        (definitions / statements / parameters / types / expression trees with numbered leaves
                        / the line of every construct)
  model_syntax(resp)    the model's answer in the same normal form

Both sides start from the same text; they must agree on every syntactically valid text."""
import json

KW = {"STRUCT": "Struct", "TASK": "Task", "IN": "In", "OUT": "Out", "LOOP": "Loop", "WHILE": "While", "TO": "To",
      "PARALLEL": "Parallel", "CONDITION": "Condition", "PASSED": "Passed", "FAILED": "Failed", "END": "End"}
SIMPLE = {"COLON": "colon", "DOT": "dot", "ARRAY_LEFT": "lbr", "ARRAY_RIGHT": "rbr", "NL": "nl", "INDENT": "ind", "DEDENT": "ded"}
OPS = {"STAR", "SLASH", "PLUS", "LESS_THAN", "LESS_THAN_OR_EQUAL", "GREATER_THAN", "GREATER_THAN_OR_EQUAL", "EQUAL",
       "NOT_EQUAL", "BOOLEAN_AND", "BOOLEAN_OR"}
ATOM = {"TRUE", "FALSE", "INTEGER", "FLOAT", "STRING", "STARTS_WITH_LOWER_C_STR", "DOT", "ARRAY_LEFT", "ARRAY_RIGHT", "MINUS"}


def _json_ok(types):
    """the token types of one struct literal against `json_object` of PFDLParser.g4"""
    pos = [0]

    def peek():
        return types[pos[0]] if pos[0] < len(types) else None

    def eat(*tys):
        if peek() in tys:
            pos[0] += 1
            return True
        return False

    def value():
        if eat("JSON_STRING", "JSON_TRUE", "JSON_FALSE", "NUMBER"):
            return True
        if peek() in ("JSON_OPEN", "JSON_OPEN_2"):
            return obj()
        if eat("JSON_ARRAY_LEFT"):
            if eat("JSON_ARRAY_RIGHT"):
                return True
            if not value():
                return False
            while eat("JSON_COMMA"):
                if not value():
                    return False
            return eat("JSON_ARRAY_RIGHT")
        return False

    def pair():
        return eat("JSON_STRING") and eat("JSON_COLON") and value()

    def obj():
        if not eat("JSON_OPEN", "JSON_OPEN_2"):
            return False
        if eat("JSON_CLOSE"):
            return True
        if not pair():
            return False
        while eat("JSON_COMMA"):
            if not pair():
                return False
        return eat("JSON_CLOSE")

    return obj() and pos[0] == len(types)


_JT = {"JSON_TRUE": "true", "JSON_FALSE": "false", "JSON_OPEN": "{", "JSON_OPEN_2": "{", "JSON_CLOSE": "}", "JSON_ARRAY_LEFT": "[",
       "JSON_ARRAY_RIGHT": "]", "JSON_COMMA": ",", "JSON_COLON": ":"}


def _jtok(ty, tx):
    if ty == "JSON_STRING":
        return {"j": "str", "s": tx}
    if ty == "NUMBER":
        return {"j": "num", "s": tx}
    if ty not in _JT:
        raise KeyError(ty)  # a token that no rule of the JSON sub-grammar mentions (JSON_QUOTE)
    return {"j": _JT[ty]}


def _jv(j):
    """the model's JSON value as the Python value json.loads gives for the text"""
    if isinstance(j, bool):
        return j
    if "s" in j:
        return json.loads(j["s"], strict=False)
    if "n" in j:
        return json.loads(j["n"])
    if "o" in j:
        return {json.loads(k, strict=False): _jv(v) for k, v in j["o"]}
    return [_jv(v) for v in j["a"]]


def _atom_ok(types):
    """the token types of one operand against `value` of PFDLParser.g4"""
    if types in (["TRUE"], ["FALSE"], ["STRING"], ["INTEGER"], ["FLOAT"], ["MINUS", "INTEGER"], ["MINUS", "FLOAT"]):
        return True
    if not types or types[0] != "STARTS_WITH_LOWER_C_STR":
        return False
    i, n, segs = 1, len(types), 0
    while i < n:
        if types[i] != "DOT" or i + 1 >= n or types[i + 1] != "STARTS_WITH_LOWER_C_STR":
            return False
        i += 2
        segs += 1
        if i < n and types[i] == "ARRAY_LEFT":
            i += 1
            if i < n and types[i] in ("INTEGER", "STARTS_WITH_LOWER_C_STR"):
                i += 1
            if i >= n or types[i] != "ARRAY_RIGHT":
                return False
            i += 1
    return segs >= 1


def _leaf_value(types, texts):
    """an operand (rule `value`) as the leaf the visitor builds: bool / number / string text with quotes / path list"""
    if types == ["TRUE"]:
        return True
    if types == ["FALSE"]:
        return False
    if types == ["STRING"]:
        return texts[0]
    if types[-1] in ("INTEGER", "FLOAT") and len(types) <= 2 and types[0] in ("MINUS", "INTEGER", "FLOAT"):
        tx = "".join(texts)
        return float(tx) if types[-1] == "FLOAT" else int(tx)
    path, i = [], 0
    while i < len(types):
        if types[i] == "STARTS_WITH_LOWER_C_STR":
            path.append(texts[i])
            i += 1
        elif types[i] == "DOT":
            i += 1
        elif types[i] == "ARRAY_LEFT":
            j = i
            while types[j] != "ARRAY_RIGHT":
                j += 1
            path.append("".join(texts[i:j + 1]))
            i = j + 1
        else:
            raise ValueError(types)
    return path


def syntax_tokens(text, leaves="index"):
    """(tokens for the model, [texts of the expression operands in order]) or None if a token has no place in the
    alphabet (only in texts the grammar rejects); leaves="value": operands as the leaves the visitor builds instead
    of numbered place holders"""
    from antlr4 import InputStream
    from pfdl_scheduler.parser.PFDLLexer import PFDLLexer as L

    lexer = L(InputStream(text))
    lexer.removeErrorListeners()
    names = L.symbolicNames
    raw = []
    t = lexer.nextToken()
    while t.type != -1 and len(raw) < 200000:
        raw.append((names[t.type] if 0 <= t.type < len(names) else str(t.type), t.text, t.line))
        t = lexer.nextToken()
    out, atoms, atom_types, atom_texts, atom_toks = [], [], [], [], []
    i, n = 0, len(raw)
    in_expr = None  # None | "while" (ends before INDENT) | "cond" (ends before NL)
    exq = []

    def flush():
        for e in exq:
            e.pop("closed", None)
        out.extend(exq)
        del exq[:]

    while i < n:
        ty, tx, ln = raw[i]
        if in_expr:
            if (in_expr == "while" and ty == "INDENT") or (in_expr == "cond" and ty == "NL"):
                flush()
                in_expr = None
                continue
            if ty == "LEFT_PARENTHESIS":
                exq.append({"t": "ex", "l": ln, "e": "("})
            elif ty == "RIGHT_PARENTHESIS":
                exq.append({"t": "ex", "l": ln, "e": ")"})
            elif ty == "BOOLEAN_NOT":
                exq.append({"t": "ex", "l": ln, "e": "!"})
            elif ty in OPS:
                exq.append({"t": "ex", "l": ln, "e": {"op": tx}})
            elif ty == "MINUS" and exq and (exq[-1]["e"] == ")" or (isinstance(exq[-1]["e"], dict) and "atom" in exq[-1]["e"])):
                exq.append({"t": "ex", "l": ln, "e": {"op": "-"}})
            elif ty in ATOM:
                if exq and isinstance(exq[-1]["e"], dict) and "atom" in exq[-1]["e"]:
                    atoms[-1] += tx
                    atom_types[-1].append(ty)
                    atom_texts[-1].append(tx)
                else:
                    exq.append({"t": "ex", "l": ln, "e": {"atom": ["#%d" % len(atoms)]}})
                    atom_toks.append(exq[-1])
                    atoms.append(tx)
                    atom_types.append([ty])
                    atom_texts.append([tx])
            else:
                return None
            i += 1
            continue
        if ty in KW:
            out.append({"t": "kw", "s": KW[ty], "l": ln})
            if ty == "WHILE" and out[-2:-1] and out[-2].get("s") == "Loop":
                in_expr = "while"
            i += 1
            continue
        if ty == "INDENT" and out and out[-1].get("s") == "Condition" and out[-1]["t"] == "kw":
            out.append({"t": "ind", "l": ln})
            in_expr = "cond"
            i += 1
            continue
        if ty in SIMPLE:
            out.append({"t": SIMPLE[ty], "l": ln})
        elif ty in ("NUMBER_P", "STRING_P", "BOOLEAN_P"):
            out.append({"t": "prim", "s": tx, "l": ln})
        elif ty == "STARTS_WITH_LOWER_C_STR":
            out.append({"t": "lo", "s": tx, "l": ln})
        elif ty == "STARTS_WITH_UPPER_C_STR":
            out.append({"t": "up", "s": tx, "l": ln})
        elif ty == "INTEGER":
            if len(tx) > 4000:
                return None
            out.append({"t": "int", "n": int(tx), "l": ln})
        elif ty in ("JSON_OPEN", "JSON_OPEN_2"):
            depth, parts, jtypes = 0, [], []
            while i < n:
                ty2, tx2, _ = raw[i]
                parts.append(tx2)
                jtypes.append(ty2)
                if ty2 in ("JSON_OPEN", "JSON_OPEN_2"):
                    depth += 1
                elif ty2 == "JSON_CLOSE":
                    depth -= 1
                    if depth == 0:
                        break
                i += 1
            if depth != 0:
                return None  # an unclosed literal swallows the rest of the text
            try:
                out.append({"t": "json", "l": ln, "toks": [_jtok(a, b) for a, b in zip(jtypes, parts)]})
            except KeyError:
                return None
        else:
            return None
        i += 1
    if in_expr:
        flush()
    if not all(_atom_ok(a) for a in atom_types):
        return None  # the operand sub-grammar (`value`) is not part of the model
    if leaves == "value":
        for tok, tys, txs in zip(atom_toks, atom_types, atom_texts):
            if any(len(x) > 300 for x in txs):
                return None
            tok["e"] = {"atom": _leaf_value(tys, txs)}
    return out, atoms


def _index_leaves(tree, leaves):
    if isinstance(tree, dict):
        if "unOp" in tree:
            return {"unOp": tree["unOp"], "value": _index_leaves(tree["value"], leaves)}
        if tree.get("left") == "(" and tree.get("right") == ")":
            return {"left": "(", "binOp": _index_leaves(tree["binOp"], leaves), "right": ")"}
        l = _index_leaves(tree["left"], leaves)
        r = _index_leaves(tree["right"], leaves)
        return {"binOp": tree["binOp"], "left": l, "right": r}
    leaves.append(tree)
    return ["#%d" % (len(leaves) - 1)]


def _leaf_text(v):
    """the source text of an operand as the visitor keeps it (numbers are cast, strings keep their quotes)"""
    if isinstance(v, bool):
        return "true" if v else "false"
    if isinstance(v, list):
        s = ""
        for seg in v:
            s += seg if (not s or seg.startswith("[")) else "." + seg
        return s
    return v


def _num_eq(text, v):
    try:
        return float(text) == float(v) and (isinstance(v, int) == ("." not in text))
    except ValueError:
        return False


def leaves_agree(atoms, leaves):
    """operand texts of the token stream against the operands of the visitor's trees, in order"""
    if len(atoms) != len(leaves):
        return "%d operands in the token stream, %d in the model" % (len(atoms), len(leaves))
    for a, v in zip(atoms, leaves):
        if isinstance(v, bool) or isinstance(v, (list, str)):
            if _leaf_text(v) != a:
                return "operand %r in the text, %r in the model" % (a, v)
        elif isinstance(v, (int, float)):
            if not _num_eq(a, v):
                return "operand %r in the text, %r in the model" % (a, v)
        elif v is None:
            return "operand %r in the text, None in the model" % (a,)
    return None


def process_syntax(process):
    """(model in the normal form, operands of all expressions in order)"""
    leaves = []

    def value(v):
        cls = type(v).__name__
        if cls == "Struct":
            return {k: value(x) for k, x in v.attributes.items()}
        if cls == "Array":
            return [value(x) for x in v.values]
        return v

    def ty(t):
        return str(t)

    def param(p):
        if type(p).__name__ == "Struct":
            return {"lit": p.name, "json": value(p)}
        return list(p) if isinstance(p, list) else p

    def line(x):
        c = getattr(x, "context", None)
        return c.start.line if c is not None else None

    def call(k, s):
        return {"k": k, "name": s.name, "ins": [param(p) for p in s.input_parameters],
                "outs": [[x, ty(t)] for x, t in s.output_parameters.items()], "line": line(s)}

    def stmt(s):
        cls = type(s).__name__
        if cls == "Service":
            return call("svc", s)
        if cls == "TaskCall":
            return call("call", s)
        if cls == "Parallel":
            return {"k": "par", "calls": [call("call", c) for c in s.task_calls], "line": line(s)}
        if cls == "Condition":
            return {"k": "cond", "e": _index_leaves(s.expression, leaves), "passed": [stmt(x) for x in s.passed_stmts],
                    "failed": [stmt(x) for x in s.failed_stmts], "line": line(s)}
        if cls == "WhileLoop":
            return {"k": "wloop", "e": _index_leaves(s.expression, leaves), "body": [stmt(x) for x in s.statements], "line": line(s)}
        if cls == "CountingLoop":
            return {"k": "ploop" if s.parallel else "cloop", "var": s.counting_variable, "limit": s.limit,
                    "body": [stmt(x) for x in s.statements], "line": line(s)}
        raise ValueError(cls)

    # tasks first visit order: the leaves are numbered per text in token order = definitions in source order
    defs = []
    for s in process.structs.values():
        defs.append((line(s), {"def": "struct", "name": s.name, "attrs": [[a, ty(t)] for a, t in s.attributes.items()], "line": line(s)}))
    tasks = sorted(process.tasks.values(), key=lambda t: line(t) or 0)
    for t in tasks:
        defs.append((line(t), {"def": "task", "name": t.name, "ins": [[x, ty(v)] for x, v in t.input_parameters.items()],
                               "body": [stmt(s) for s in t.statements], "outs": list(t.output_parameters), "line": line(t)}))
    defs.sort(key=lambda d: d[0] or 0)
    return [d for _, d in defs], leaves


def model_syntax(resp):
    """the model's answer in the normal form of process_syntax (None: the model does not parse the stream)"""
    if not resp.get("ok"):
        return None

    def ty(j):
        return j["base"] + (j["arr"] if j["arr"] is not None else "")

    def param(p):
        if isinstance(p, dict):
            return {"lit": p["lit"], "json": _jv(p["json"])}
        return p

    def call(c):
        return {"k": c["k"], "name": c["name"], "ins": [param(p) for p in c["ins"]], "outs": [[x, ty(t)] for x, t in c["outs"]], "line": c["line"]}

    def stmt(s):
        k = s["k"]
        if k in ("svc", "call"):
            return call(s)
        if k == "par":
            return {"k": k, "calls": [call(c) for c in s["calls"]], "line": s["line"]}
        if k == "cond":
            return {"k": k, "e": s["e"], "passed": [stmt(x) for x in s["passed"]], "failed": [stmt(x) for x in (s["failed"] or [])], "line": s["line"]}
        if k == "wloop":
            return {"k": k, "e": s["e"], "body": [stmt(x) for x in s["body"]], "line": s["line"]}
        return {"k": k, "var": s["var"], "limit": s["limit"], "body": [stmt(x) for x in s["body"]], "line": s["line"]}

    out = []
    for d in resp["defs"]:
        if d["def"] == "struct":
            out.append({"def": "struct", "name": d["name"], "attrs": [[a, ty(t)] for a, t in d["attrs"]], "line": d["line"]})
        else:
            out.append({"def": "task", "name": d["name"], "ins": [[x, ty(t)] for x, t in d["ins"]], "body": [stmt(s) for s in d["body"]],
                        "outs": d["outs"], "line": d["line"]})
    return out


def typed(x):
    """type-strict normal form (True != 1, 7 != 7.0)"""
    if isinstance(x, bool):
        return ("bool", x)
    if isinstance(x, (int, float)):
        return (type(x).__name__, x)
    if isinstance(x, list):
        return [typed(v) for v in x]
    if isinstance(x, dict):
        return {k: typed(v) for k, v in x.items()}
    return x


def antlr_accepts(text):
    """does the generated parser read the text without a syntax error (lexer and parser; the visitor is not run)"""
    from antlr4 import InputStream, CommonTokenStream
    from antlr4.error.ErrorListener import ErrorListener
    from pfdl_scheduler.parser.PFDLLexer import PFDLLexer
    from pfdl_scheduler.parser.PFDLParser import PFDLParser

    class Count(ErrorListener):
        def __init__(self):
            super().__init__()
            self.msgs = []

        def syntaxError(self, recognizer, offendingSymbol, line, column, msg, e):
            self.msgs.append("%d:%d %s" % (line, column, msg))

    lx, c = Count(), Count()
    lexer = PFDLLexer(InputStream(text))
    lexer.removeErrorListeners()
    lexer.addErrorListener(lx)
    stream = CommonTokenStream(lexer)
    parser = PFDLParser(stream)
    parser.removeErrorListeners()
    parser.addErrorListener(c)
    parser.program()
    return {"parser_ok": not c.msgs, "lexer_ok": not lx.msgs, "msgs": (lx.msgs + c.msgs)[:3]}
